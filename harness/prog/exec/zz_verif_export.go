//go:build verif
// +build verif

package exec

import "github.com/grailbio/base/retry"

// VerifSetRetryPolicy replaces the machine-call retry policy (injected into the verification work
// copy only, never into /repo): the session-level harness shortens the 5s..60s back-off so that reads
// of discarded or lost outputs exhaust their retry budget quickly.
func VerifSetRetryPolicy(p retry.Policy) { retryPolicy = p }
