package verifprog

// Program/scenario harness (work copy only) shared by C01 C04 C05 C06 C12 C13 C19 C20: builds slice
// programs from a JSON description out of the public operators, runs scenarios (run / scan /
// run-with-result / discard, sequential or concurrent) in real sessions on the Local and
// Bigmachine(testsystem) executors, and records what was observed: per-shard rows seen by taps
// (WriterFunc) and Scan callbacks, rows scanned from results, errors, user counters. It computes no
// expectation; specs/Dataflow.tla + ProgMon.tla are the reference and TLC is the judge.

import (
	"bytes"
	"context"
	"encoding/json"
	"errors"
	"fmt"
	"io"
	"io/ioutil"
	"net/http"
	"os"
	"path"
	osexec "os/exec"
	"reflect"
	"runtime"
	"runtime/debug"
	"runtime/pprof"
	"sort"
	"strings"
	"sync"
	"sync/atomic"
	"testing"
	"time"

	baseerrors "github.com/grailbio/base/errors"
	"github.com/grailbio/base/retry"
	"github.com/grailbio/bigmachine"
	"github.com/grailbio/bigmachine/testsystem"
	"github.com/grailbio/bigslice"
	"github.com/grailbio/bigslice/exec"
	"github.com/grailbio/bigslice/internal/defaultsize"
	"github.com/grailbio/base/compress/zstd"
	"github.com/grailbio/bigslice/frame"
	"github.com/grailbio/bigslice/internal/vfault"
	"github.com/grailbio/bigslice/internal/vtr"
	"github.com/grailbio/bigslice/slicetype"
	"github.com/grailbio/bigslice/metrics"
	"github.com/grailbio/bigslice/sliceio"
)

type node struct {
	Op     string    `json:"op"`
	In     []int     `json:"in"`
	F      string    `json:"f"`
	N      int       `json:"n"`
	NShard int       `json:"nshard"`
	Rows   [][]int   `json:"rows"`   // const
	Shards [][][]int `json:"shards"` // readerfunc: rows per shard
	Batch  int       `json:"batch"`
	Arg    int       `json:"arg"`    // op=arg: index of the Result argument
	Pragma []string  `json:"pragma"` // procs2 exclusive materialize
	Prefix string    `json:"prefix"` // cache prefix
	Fault  *fault    `json:"fault,omitempty"`
}

type fault struct {
	Mode    string `json:"mode"`    // error | temp | panic | oor (partitioner out of range)
	At      int    `json:"at"`      // call ordinal (per shard) at which to fail, 0-based
	Shard   int    `json:"shard"`   // shard that fails (-1 = any)
	Persist bool   `json:"persist"` // false: fails only the first time it is reached
	Msg     string `json:"msg"`
	Times   int    `json:"times,omitempty"` // not persistent: fails this many times in a row (default 1), again after every "resetfaults" step
}

// faultEpoch is advanced by the "resetfaults" step: one-shot faults fire again afterwards.
var faultEpoch int64

type prog struct {
	Nodes []node `json:"nodes"`
	Out   int    `json:"out"`
	Taps  []int  `json:"taps"`
}

type step struct {
	Do    string   `json:"do"` // run | scan | discard | par
	As    string   `json:"as"`
	Res   string   `json:"res"`
	Prog  *prog    `json:"prog,omitempty"`
	Args  []string `json:"args"`
	N     int      `json:"n,omitempty"`     // sleep: milliseconds; cachefiles/cachedelete: number of shards
	Prefix string   `json:"prefix,omitempty"` // cachefiles/cachedelete
	Shards []int    `json:"shards,omitempty"` // cachedelete
	Faults [][]interface{} `json:"faults,omitempty"` // faults: [kind, at] plans for the vfault file layer
	Steps [][]step `json:"steps,omitempty"` // par: groups run concurrently, each group sequential
	Cancelled bool `json:"cancelled,omitempty"` // discard: call Discard with a context that is already cancelled
	Must  bool     `json:"must,omitempty"`  // cachefiles: every shard file must exist now (recorded for the monitor)
	Kills []killPlan `json:"kills,omitempty"` // kills: machine kills at RPC boundaries (C02), counted from this step on
}

type scenario struct {
	ID          int     `json:"id"`
	Exec        string  `json:"exec"` // local | bigmachine
	Parallelism int     `json:"parallelism"`
	MaxLoad     float64 `json:"maxload"`
	MachComb    bool    `json:"machcomb"`
	MachProcs   int     `json:"machprocs"`
	Chunk       int     `json:"chunk"`
	Canary      int     `json:"canary"`
	SpillBatch  int     `json:"spillbatch"`
	Gomaxprocs  int     `json:"gomaxprocs"`
	Steps       []step  `json:"steps"`
	TimeoutS    int     `json:"timeout_s"`
	Isolate     bool    `json:"isolate"` // run in a child process (a crash of the driver must not take the harness down)
	Interpose   bool    `json:"interpose"` // bigmachine: count (and on request kill at) every RPC of the test system
	Loss        bool    `json:"loss"`      // machines are killed during this scenario (recorded for the monitor)
}

// ---------------------------------------------------------------------------------------------
// recorder of side effects, keyed by run id

type runRec struct {
	mu     sync.Mutex
	taps   map[int]map[int][][]int // node -> shard -> rows
	eofs   map[int]map[int]int     // node -> shard -> number of end-of-stream notifications
	calls  map[string]int          // user function call counts, by "node/kind"
	fired  map[string]bool         // one-shot faults already fired
	faultN map[string]int
	nfired int
}

var (
	recMu sync.Mutex
	recs  = map[int]*runRec{}
)

func getRec(rid int) *runRec {
	recMu.Lock()
	defer recMu.Unlock()
	r := recs[rid]
	if r == nil {
		r = &runRec{taps: map[int]map[int][][]int{}, eofs: map[int]map[int]int{}, calls: map[string]int{},
			fired: map[string]bool{}, faultN: map[string]int{}}
		recs[rid] = r
	}
	return r
}

func (r *runRec) tap(n, shard int, ks, vs []int, eof bool) {
	r.mu.Lock()
	defer r.mu.Unlock()
	if r.taps[n] == nil {
		r.taps[n] = map[int][][]int{}
		r.eofs[n] = map[int]int{}
	}
	if _, ok := r.taps[n][shard]; !ok {
		r.taps[n][shard] = [][]int{}
	}
	for i := range ks {
		r.taps[n][shard] = append(r.taps[n][shard], []int{ks[i], vs[i]})
	}
	if eof {
		r.eofs[n][shard]++
	}
}

func (r *runRec) call(key string, n int) {
	r.mu.Lock()
	r.calls[key] += n
	r.mu.Unlock()
}

var errUser = errors.New("user-error")

var slowCalls int64

// maybeFail implements fault injection at a user-function call site.
func (r *runRec) maybeFail(nd int, f *fault, shard int) error {
	if f == nil {
		return nil
	}
	if f.Shard >= 0 && shard >= 0 && f.Shard != shard {
		return nil
	}
	ep := atomic.LoadInt64(&faultEpoch)
	key := fmt.Sprintf("%d/%d/%d", ep, nd, shard)
	times := f.Times
	if times <= 0 {
		times = 1
	}
	r.mu.Lock()
	n := r.faultN[key]
	r.faultN[key]++
	fire := (n >= f.At && n < f.At+times) || (f.Persist && n >= f.At)
	if fire && !f.Persist {
		fk := fmt.Sprintf("%d/%d", ep, nd)
		if r.faultN["fired/"+fk] >= times {
			fire = false
		} else {
			r.faultN["fired/"+fk]++
		}
	}
	if fire {
		r.nfired++
	}
	r.mu.Unlock()
	if !fire {
		return nil
	}
	msg := f.Msg
	if msg == "" {
		msg = "userfault"
	}
	switch f.Mode {
	case "panic":
		panic(msg)
	case "temp":
		return baseerrors.E(baseerrors.Temporary, msg)
	default:
		return errors.New(msg)
	}
}

// safeIncr increments c in the scope carried by ctx, if any (a Scan callback reads its input with a
// context of its own, which carries no metrics scope).
func safeIncr(ctx context.Context, c metrics.Counter, n int64) {
	defer func() { _ = recover() }()
	c.Incr(metrics.ContextScope(ctx), n)
}

// user counters (C20)
var (
	cntMap    = metrics.NewCounter()
	cntFilter = metrics.NewCounter()
)

// ---------------------------------------------------------------------------------------------
// building a slice from a program

type rfState struct{ pos int }

func pragmas(n *node) []bigslice.Pragma {
	var ps []bigslice.Pragma
	for _, p := range n.Pragma {
		switch p {
		case "procs2":
			ps = append(ps, bigslice.Procs(2))
		case "exclusive":
			ps = append(ps, bigslice.Exclusive)
		case "materialize":
			ps = append(ps, bigslice.ExperimentalMaterialize)
		}
	}
	return ps
}

func build(rid int, p *prog, args []bigslice.Slice) bigslice.Slice {
	rec := getRec(rid)
	out := make([]bigslice.Slice, len(p.Nodes))
	tapped := map[int]bool{}
	for _, t := range p.Taps {
		tapped[t] = true
	}
	for i := range p.Nodes {
		nd := &p.Nodes[i]
		ni := i
		var in []bigslice.Slice
		for _, j := range nd.In {
			in = append(in, out[j])
		}
		var s bigslice.Slice
		switch nd.Op {
		case "const":
			ks, vs := make([]int, len(nd.Rows)), make([]int, len(nd.Rows))
			for r, row := range nd.Rows {
				ks[r], vs[r] = row[0], row[1]
			}
			s = bigslice.Const(nd.NShard, ks, vs)
		case "readerfunc":
			shards, batch := nd.Shards, nd.Batch
			s = bigslice.ReaderFunc(nd.NShard, func(shard int, st *rfState, ks, vs []int) (int, error) {
				var ferr error
				if err := rec.maybeFail(ni, nd.Fault, shard); err != nil {
					if nd.Fault.Mode != "errrows" {
						return 0, err
					}
					ferr = err // delivered together with the rows of this call
				}
				rows := shards[shard]
				n := 0
				for n < len(ks) && st.pos < len(rows) && (batch <= 0 || n < batch) {
					ks[n], vs[n] = rows[st.pos][0], rows[st.pos][1]
					n++
					st.pos++
				}
				if ferr != nil {
					return n, ferr
				}
				if st.pos == len(rows) {
					return n, sliceio.EOF
				}
				return n, nil
			}, pragmas(nd)...)
		case "scanreader":
			var sb strings.Builder
			for _, row := range nd.Rows {
				fmt.Fprintf(&sb, "%d %d\n", row[0], row[1])
			}
			text := sb.String()
			sr := bigslice.ScanReader(nd.NShard, func() (io.ReadCloser, error) {
				return ioutil.NopCloser(strings.NewReader(text)), nil
			})
			s = bigslice.Map(sr, func(line string) (int, int) {
				var k, v int
				if _, err := fmt.Sscanf(line, "%d %d", &k, &v); err != nil {
					return -1, -1
				}
				return k, v
			})
		case "arg":
			s = args[nd.Arg]
		case "map":
			f := nd.F
			s = bigslice.Map(in[0], func(ctx context.Context, k, v int) (int, int) {
				if err := rec.maybeFail(ni, nd.Fault, -1); err != nil {
					panic(err)
				}
				rec.call(fmt.Sprintf("%d/map", ni), 1)
				safeIncr(ctx, cntMap, 1)
				switch f {
				case "inc":
					return k, v + 1
				case "kmod":
					return k % 2, v
				case "swap":
					return v % 4, k
				}
				panic("map f " + f)
			}, pragmas(nd)...)
		case "filter":
			f := nd.F
			s = bigslice.Filter(in[0], func(ctx context.Context, k, v int) bool {
				if err := rec.maybeFail(ni, nd.Fault, -1); err != nil {
					panic(err)
				}
				rec.call(fmt.Sprintf("%d/filter", ni), 1)
				safeIncr(ctx, cntFilter, 2)
				switch f {
				case "even":
					return v%2 == 0
				case "knz":
					return k != 0
				}
				panic("filter f " + f)
			}, pragmas(nd)...)
		case "flatmap":
			s = bigslice.Flatmap(in[0], func(k, v int) (ks, vs []int) {
				if err := rec.maybeFail(ni, nd.Fault, -1); err != nil {
					panic(err)
				}
				rec.call(fmt.Sprintf("%d/flatmap", ni), 1)
				for j := 0; j < v%3; j++ {
					ks = append(ks, k)
					vs = append(vs, v+100*j)
				}
				return
			}, pragmas(nd)...)
		case "fold":
			s = bigslice.Fold(in[0], func(acc, v int) int {
				if err := rec.maybeFail(ni, nd.Fault, -1); err != nil {
					panic(err)
				}
				return acc + v
			})
		case "head":
			s = bigslice.Head(in[0], nd.N)
		case "reduce":
			f := nd.F
			s = bigslice.Reduce(in[0], func(a, b int) int {
				if err := rec.maybeFail(ni, nd.Fault, -1); err != nil {
					panic(err)
				}
				if f == "max" {
					if a > b {
						return a
					}
					return b
				}
				if f == "slowsum" && atomic.AddInt64(&slowCalls, 1)%32 == 0 {
					time.Sleep(300 * time.Microsecond)
				}
				return a + b
			})
		case "cogroup":
			cg := bigslice.Cogroup(in...)
			sum := func(k int, xs ...[]int) (int, int) {
				t := 0
				for _, x := range xs {
					u := 7 * len(x)
					for _, y := range x {
						u += y
					}
					t = (t*31 + u) % 10007
				}
				return k, t
			}
			switch len(in) {
			case 1:
				s = bigslice.Map(cg, func(k int, a []int) (int, int) { return sum(k, a) })
			case 2:
				s = bigslice.Map(cg, func(k int, a, b []int) (int, int) { return sum(k, a, b) })
			case 3:
				s = bigslice.Map(cg, func(k int, a, b, c []int) (int, int) { return sum(k, a, b, c) })
			default:
				panic("cogroup arity")
			}
		case "reshuffle":
			s = bigslice.Reshuffle(in[0])
		case "repartition":
			s = bigslice.Repartition(in[0], func(nshard, k, v int) int {
				if nd.Fault != nil && nd.Fault.Mode == "oor" {
					if err := rec.maybeFail(ni, &fault{Mode: "error", At: nd.Fault.At, Shard: -1, Persist: nd.Fault.Persist}, -1); err != nil {
						return nshard + 3
					}
				} else if err := rec.maybeFail(ni, nd.Fault, -1); err != nil {
					panic(err)
				}
				return (k + v) % nshard
			})
		case "reshard":
			s = bigslice.Reshard(in[0], nd.N)
		case "prefixed":
			s = bigslice.Prefixed(in[0], nd.N)
		case "writerfunc":
			s = bigslice.WriterFunc(in[0], func(shard int, st struct{}, err error, ks, vs []int) error {
				if ferr := rec.maybeFail(ni, nd.Fault, shard); ferr != nil {
					return ferr
				}
				rec.tap(ni, shard, ks, vs, err == sliceio.EOF)
				return nil
			})
		case "scan":
			s = bigslice.Scan(in[0], func(shard int, sc *sliceio.Scanner) error {
				var k, v int
				ctx := context.Background()
				if ferr := rec.maybeFail(ni, nd.Fault, shard); ferr != nil {
					return ferr
				}
				rec.tap(ni, shard, nil, nil, false)
				for sc.Scan(ctx, &k, &v) {
					rec.tap(ni, shard, []int{k}, []int{v}, false)
				}
				if err := sc.Err(); err != nil {
					return err
				}
				rec.tap(ni, shard, nil, nil, true)
				return nil
			})
		case "cache":
			s = bigslice.Cache(context.Background(), in[0], nd.Prefix)
		case "cachepartial":
			s = bigslice.CachePartial(context.Background(), in[0], nd.Prefix)
		case "readcache":
			s = bigslice.ReadCache(context.Background(), in[0], nd.NShard, nd.Prefix)
		default:
			panic("unknown op " + nd.Op)
		}
		if tapped[i] && nd.Op != "scan" && nd.Op != "writerfunc" {
			tn := 1000 + i
			s = bigslice.WriterFunc(s, func(shard int, st struct{}, err error, ks, vs []int) error {
				rec.tap(tn, shard, ks, vs, err == sliceio.EOF)
				return nil
			})
		}
		out[i] = s
	}
	return out[p.Out]
}

func decodeProg(spec string) *prog {
	var p prog
	if err := json.Unmarshal([]byte(spec), &p); err != nil {
		panic(err)
	}
	return &p
}

var (
	progFunc0 = bigslice.Func(func(rid int, spec string) bigslice.Slice { return build(rid, decodeProg(spec), nil) })
	progFunc1 = bigslice.Func(func(rid int, spec string, a bigslice.Slice) bigslice.Slice {
		return build(rid, decodeProg(spec), []bigslice.Slice{a})
	})
	progFunc2 = bigslice.Func(func(rid int, spec string, a, b bigslice.Slice) bigslice.Slice {
		return build(rid, decodeProg(spec), []bigslice.Slice{a, b})
	})
)

// ---------------------------------------------------------------------------------------------
// running scenarios

type runner struct {
	killer *killer
	sc   *scenario
	sess *exec.Session
	mu   sync.Mutex
	res  map[string]*exec.Result
	evs  []vtr.Rec
	seq  int
}

var ridMu sync.Mutex
var ridNext = 1

func nextRid() int {
	ridMu.Lock()
	defer ridMu.Unlock()
	ridNext++
	return ridNext
}

func errText(err error) string {
	if err == nil {
		return ""
	}
	s := err.Error()
	if len(s) > 600 {
		s = s[:600]
	}
	return s
}

func (r *runner) emit(ev vtr.Rec) {
	r.mu.Lock()
	r.seq++
	ev["seq"] = r.seq
	r.evs = append(r.evs, ev)
	r.mu.Unlock()
}

func tapsJSON(rec *runRec) (map[string]map[string][][]int, map[string]map[string]int, map[string]int) {
	rec.mu.Lock()
	defer rec.mu.Unlock()
	t := map[string]map[string][][]int{}
	e := map[string]map[string]int{}
	for n, m := range rec.taps {
		t[fmt.Sprint(n)] = map[string][][]int{}
		e[fmt.Sprint(n)] = map[string]int{}
		for sh, rows := range m {
			cp := make([][]int, len(rows))
			copy(cp, rows)
			t[fmt.Sprint(n)][fmt.Sprint(sh)] = cp
			e[fmt.Sprint(n)][fmt.Sprint(sh)] = rec.eofs[n][sh]
		}
	}
	c := map[string]int{}
	for k, v := range rec.calls {
		c[k] = v
	}
	return t, e, c
}

func (r *runner) scan(ctx context.Context, res *exec.Result) ([][]int, string) {
	sc := res.Scanner()
	defer sc.Close()
	rows := [][]int{}
	var k, v int
	if res.NumOut() == 0 {
		for sc.Scan(ctx) {
		}
		return rows, errText(sc.Err())
	}
	for sc.Scan(ctx, &k, &v) {
		rows = append(rows, []int{k, v})
	}
	return rows, errText(sc.Err())
}

func (r *runner) doStep(ctx context.Context, st *step, lane int) {
	if st.Do == "run" || st.Do == "scan" {
		// every run and scan gets its own deadline, so that one that only ends because its deadline
		// expired does not also fail the steps after it
		to := r.sc.TimeoutS
		if to <= 0 {
			to = 120
		}
		var cancel func()
		ctx, cancel = context.WithTimeout(ctx, time.Duration(to)*time.Second)
		defer cancel()
		if d := vtr.EnvInt("VERIF_DUMP_AFTER_S", 0); d > 0 {
			// diagnosis of blocked steps: write all goroutine stacks once the step has taken d seconds
			tm := time.AfterFunc(time.Duration(d)*time.Second, func() {
				if f, err := os.Create(fmt.Sprintf("%s/goroutines_sc%d_%s_%d.txt", vtr.OutDir(), r.sc.ID, st.Do, time.Now().UnixNano())); err == nil {
					pprof.Lookup("goroutine").WriteTo(f, 2)
					f.Close()
				}
			})
			defer tm.Stop()
		}
	}
	switch st.Do {
	case "run":
		rid := nextRid()
		spec, _ := json.Marshal(st.Prog)
		var (
			args []interface{}
			fn   *bigslice.FuncValue
		)
		args = append(args, rid, string(spec))
		missing := false
		r.mu.Lock()
		for _, a := range st.Args {
			if r.res[a] == nil {
				missing = true
			}
			args = append(args, r.res[a])
		}
		r.mu.Unlock()
		if missing {
			r.emit(vtr.Rec{"do": "run", "as": st.As, "lane": lane, "skipped": true, "args": st.Args})
			return
		}
		switch len(st.Args) {
		case 0:
			fn = progFunc0
		case 1:
			fn = progFunc1
		case 2:
			fn = progFunc2
		}
		var (
			res *exec.Result
			err error
			pan string
		)
		t0 := time.Now()
		func() {
			defer func() {
				if e := recover(); e != nil {
					pan = fmt.Sprint(e)
				}
			}()
			res, err = r.sess.Run(ctx, fn, args...)
		}()
		ev := vtr.Rec{"do": "run", "as": st.As, "lane": lane, "args": st.Args, "prog": st.Prog, "err": errText(err), "rid": rid}
		ev["elapsed_ms"] = int(time.Since(t0) / time.Millisecond)
		ev["ctxerr"] = ctx.Err() != nil
		rr := getRec(rid)
		rr.mu.Lock()
		ev["fault_fired"] = rr.nfired
		rr.mu.Unlock()
		hasmsg := false
		if err != nil {
			for _, nd := range st.Prog.Nodes {
				if nd.Fault != nil {
					m := nd.Fault.Msg
					if m == "" {
						m = "userfault"
					}
					if strings.Contains(err.Error(), m) {
						hasmsg = true
					}
				}
			}
		}
		ev["hasmsg"] = hasmsg
		if pan != "" {
			ev["panic"] = pan
		}
		if err == nil && pan == "" {
			r.mu.Lock()
			r.res[st.As] = res
			r.mu.Unlock()
			ev["nshard"] = res.NumShard()
			ev["cnt_map"] = cntMap.Value(res.Scope())
			ev["cnt_filter"] = cntFilter.Value(res.Scope())
		}
		t, e, c := tapsJSON(getRec(rid))
		ev["taps"], ev["eofs"], ev["calls"] = t, e, c
		if r.killer != nil {
			ev["rpc"], ev["kills_fired"] = r.killer.snapshot()
		}
		r.emit(ev)
	case "scan":
		r.mu.Lock()
		res := r.res[st.Res]
		r.mu.Unlock()
		if res == nil {
			r.emit(vtr.Rec{"do": "scan", "res": st.Res, "lane": lane, "skipped": true})
			return
		}
		var (
			rows [][]int
			es   string
			pan  string
		)
		func() {
			defer func() {
				if e := recover(); e != nil {
					pan = fmt.Sprint(e)
				}
			}()
			rows, es = r.scan(ctx, res)
		}()
		ev := vtr.Rec{"do": "scan", "res": st.Res, "lane": lane, "rows": rows, "err": es}
		if pan != "" {
			ev["panic"] = pan
			ev["rows"] = [][]int{}
		}
		ev["ctxerr"] = ctx.Err() != nil
		if r.killer != nil {
			ev["rpc"], ev["kills_fired"] = r.killer.snapshot()
		}
		r.emit(ev)
	case "discard":
		r.mu.Lock()
		res := r.res[st.Res]
		r.mu.Unlock()
		if res == nil {
			r.emit(vtr.Rec{"do": "discard", "res": st.Res, "lane": lane, "skipped": true})
			return
		}
		// logged before the call: anything that overlaps the Discard may already see the outputs gone
		r.emit(vtr.Rec{"do": "discard", "res": st.Res, "lane": lane})
		dctx := ctx
		if st.Cancelled {
			// the caller gives up on the Discard while it is in progress: with an interposer plan that fails a
			// Worker.Discard call, the context is cancelled at that very call (so the call is not retried);
			// without one, it is cancelled from the start
			c, cancel := context.WithCancel(ctx)
			dctx = c
			if r.killer != nil {
				r.killer.mu.Lock()
				r.killer.onFail = cancel
				r.killer.mu.Unlock()
				defer func() {
					r.killer.mu.Lock()
					r.killer.onFail = nil
					r.killer.mu.Unlock()
					cancel()
				}()
			} else {
				cancel()
			}
		}
		res.Discard(dctx)
		r.emit(vtr.Rec{"do": "discard-done", "res": st.Res, "lane": lane})
	case "sleep":
		time.Sleep(time.Duration(st.N) * time.Millisecond)
	case "kills":
		if r.killer == nil {
			r.emit(vtr.Rec{"do": "kills", "lane": lane, "skipped": true})
			return
		}
		prev, fired := r.killer.arm(st.Kills)
		r.emit(vtr.Rec{"do": "kills", "lane": lane, "nkills": len(st.Kills), "rpc_before": prev, "fired_before": fired})
	case "resetfaults":
		atomic.AddInt64(&faultEpoch, 1)
		r.emit(vtr.Rec{"do": "resetfaults", "lane": lane})
	case "faults":
		vfault.ClearPlans()
		for _, f := range st.Faults {
			vfault.Fail(f[0].(string), int(f[1].(float64)))
		}
		r.emit(vtr.Rec{"do": "faults", "lane": lane, "nfaults": len(st.Faults)})
	case "cachedelete":
		for _, sh := range st.Shards {
			_ = os.Remove(vfault.Local(fmt.Sprintf("%s-%04d-of-%04d", st.Prefix, sh, st.N)))
		}
		shards := st.Shards
		if shards == nil {
			shards = []int{}
		}
		r.emit(vtr.Rec{"do": "cachedelete", "lane": lane, "prefix": st.Prefix, "shards": shards})
	case "cachefiles":
		files := map[string]interface{}{}
		for sh := 0; sh < st.N; sh++ {
			files[fmt.Sprint(sh)] = readCacheFile(vfault.Local(fmt.Sprintf("%s-%04d-of-%04d", st.Prefix, sh, st.N)))
		}
		// anything else under the prefix (temporary files are not shard files and are ignored by readers)
		lg := vfault.Log()
		if len(lg) > 40 {
			lg = lg[len(lg)-40:]
		}
		r.emit(vtr.Rec{"do": "cachefiles", "lane": lane, "prefix": st.Prefix, "n": st.N, "files": files, "fileops": lg, "must": st.Must})
	case "par":
		r.emit(vtr.Rec{"do": "parbegin", "lane": lane, "n": len(st.Steps)})
		var wg sync.WaitGroup
		for i := range st.Steps {
			wg.Add(1)
			go func(i int) {
				defer wg.Done()
				for j := range st.Steps[i] {
					r.doStep(ctx, &st.Steps[i][j], lane*10+i+1)
				}
			}(i)
		}
		wg.Wait()
		r.emit(vtr.Rec{"do": "parend", "lane": lane})
	}
}

func runScenario(sc *scenario) (rec vtr.Rec) {
	rec = vtr.Rec{"id": sc.ID, "exec": sc.Exec, "parallelism": sc.Parallelism, "maxload": sc.MaxLoad, "machcomb": sc.MachComb,
		"machprocs": sc.MachProcs, "chunk": sc.Chunk, "canary": sc.Canary}
	if sc.Gomaxprocs > 0 {
		defer runtime.GOMAXPROCS(runtime.GOMAXPROCS(sc.Gomaxprocs))
	}
	if sc.Canary > 0 {
		defer func(v int) { defaultsize.SortCanary = v }(defaultsize.SortCanary)
		defaultsize.SortCanary = sc.Canary
	}
	if sc.SpillBatch > 0 {
		defer func(v int) { sliceio.SpillBatchSize = v }(sliceio.SpillBatchSize)
		sliceio.SpillBatchSize = sc.SpillBatch
	}
	var opts []exec.Option
	var kl *killer
	var tsys *testsystem.System
	if sc.Exec == "bigmachine" {
		sys := testsystem.New()
		tsys = sys
		if sc.MachProcs > 0 {
			sys.Machineprocs = sc.MachProcs
		}
		sys.KeepalivePeriod = time.Second
		sys.KeepaliveTimeout = 2 * time.Second
		sys.KeepaliveRpcTimeout = time.Second
		opts = append(opts, exec.Bigmachine(sys))
		if sc.MachComb {
			opts = append(opts, exec.MachineCombiners)
		}
		if sc.Interpose {
			kl = newKiller(sys)
		}
		if sc.MaxLoad > 0 {
			opts = append(opts, exec.MaxLoad(sc.MaxLoad))
		}
	} else {
		opts = append(opts, exec.Local)
	}
	if sc.Parallelism > 0 {
		opts = append(opts, exec.Parallelism(sc.Parallelism))
	}
	r := &runner{sc: sc, res: map[string]*exec.Result{}, killer: kl}
	rec["loss"] = sc.Loss
	r.sess = exec.Start(opts...)
	to := sc.TimeoutS
	if to <= 0 {
		to = 120
	}
	nrun := 1
	var count func(ss []step)
	count = func(ss []step) {
		for i := range ss {
			nrun++
			for _, g := range ss[i].Steps {
				count(g)
			}
		}
	}
	count(sc.Steps)
	ctx, cancel := context.WithTimeout(context.Background(), time.Duration(to*nrun)*time.Second)
	defer cancel()
	done := make(chan struct{})
	go func() {
		defer close(done)
		defer func() {
			if e := recover(); e != nil {
				r.emit(vtr.Rec{"do": "harness-panic", "panic": fmt.Sprint(e), "stack": string(debug.Stack())})
			}
		}()
		for i := range sc.Steps {
			r.doStep(ctx, &sc.Steps[i], 0)
		}
	}()
	hung := false
	select {
	case <-done:
	case <-time.After(time.Duration(to*nrun+30) * time.Second):
		hung = true
	}
	if !hung {
		shut := make(chan struct{})
		go func() { r.sess.Shutdown(); close(shut) }()
		select {
		case <-shut:
		case <-time.After(20 * time.Second):
		}
	}
	if tsys != nil {
		// the test system never closes the servers of its machines; do it, or long batches run out of descriptors
		cleaned := make(chan struct{})
		go func() {
			defer close(cleaned)
			for i := 0; i < 1000 && tsys.N() > 0; i++ {
				tsys.Kill(nil)
			}
			if t, ok := tsys.HTTPClient().Transport.(*http.Transport); ok {
				t.CloseIdleConnections()
			} else if kl != nil {
				if t, ok := kl.base.(*http.Transport); ok {
					t.CloseIdleConnections()
				}
			}
		}()
		select {
		case <-cleaned:
		case <-time.After(15 * time.Second): // a server waits for its outstanding handlers; do not wait with it
		}
	}
	r.mu.Lock()
	rec["events"] = append([]vtr.Rec{}, r.evs...)
	r.mu.Unlock()
	rec["hung"] = hung
	if kl != nil {
		counts, _ := kl.arm(nil)
		rec["rpc"] = counts
		rec["killlog"] = kl.getLog()
		kl.mu.Lock()
		rec["addr_reused_calls"] = kl.reused
		kl.mu.Unlock()
	}
	return
}

// ---------------------------------------------------------------------------------------------
// RPC interposer of the test system (C02): every RPC of the session (driver to worker, worker to worker,
// keepalives) goes through the test system's shared http.Client. The interposer counts the calls per method and,
// where a plan says so, kills the machine serving the call before it, after it (reply delivered), after it with
// the reply dropped, or in the middle of a streamed reply.

type killPlan struct {
	Method  string `json:"method"`
	Ordinal int    `json:"ordinal"` // 1-based, counted per method since the plan was armed
	Phase   string `json:"phase"`   // before | after | afterlost | afterdelay (reply delivered once the loss is known) | mid | drop (reply lost, machine stays up)
	Bytes   int    `json:"bytes"`   // mid: reply bytes delivered before the kill
	fired   bool
}

type killer struct {
	mu     sync.Mutex
	sys    *testsystem.System
	base   http.RoundTripper
	plans  []killPlan
	counts map[string]int
	nfired int
	log    []vtr.Rec
	onFail func()          // called when a "fail" plan fires (a Discard step cancels its own context there)
	dead   map[string]bool // addresses of killed machines
	reused int             // calls addressed to a killed machine while a new machine had its address
}

func newKiller(sys *testsystem.System) *killer {
	k := &killer{sys: sys, counts: map[string]int{}, log: []vtr.Rec{}, dead: map[string]bool{}}
	c := sys.HTTPClient()
	k.base = c.Transport
	c.Transport = k
	return k
}

// arm installs new plans and resets the counters; returns the counters and number of kills of the previous arming.
func (k *killer) arm(plans []killPlan) (map[string]int, int) {
	k.mu.Lock()
	defer k.mu.Unlock()
	prev, fired := k.counts, k.nfired
	k.counts = map[string]int{}
	k.nfired = 0
	k.plans = append([]killPlan{}, plans...)
	return prev, fired
}

func (k *killer) snapshot() (map[string]int, int) {
	k.mu.Lock()
	defer k.mu.Unlock()
	c := map[string]int{}
	for m, n := range k.counts {
		c[m] = n
	}
	return c, k.nfired
}

func (k *killer) getLog() []vtr.Rec {
	k.mu.Lock()
	defer k.mu.Unlock()
	return append([]vtr.Rec{}, k.log...)
}

func (k *killer) kill(addr string, pl *killPlan) {
	killed := false
	k.mu.Lock()
	k.dead[addr] = true
	k.mu.Unlock()
	done := make(chan bool, 1)
	// Kill closes the machine's connections first and then waits for its outstanding handlers; the machine is
	// dead for the session as soon as the connections are gone, so the wait is bounded here
	go func() {
		ok := false
		for i := 0; i < k.sys.N(); i++ {
			func() {
				defer func() { recover() }() // Index panics if a machine went away meanwhile
				if m := k.sys.Index(i); m.Addr == addr {
					ok = k.sys.Kill(m) || ok
				}
			}()
		}
		done <- ok
	}()
	select {
	case killed = <-done:
	case <-time.After(5 * time.Second):
		killed = true
	}
	k.mu.Lock()
	k.nfired++
	k.log = append(k.log, vtr.Rec{"method": pl.Method, "ordinal": pl.Ordinal, "phase": pl.Phase, "killed": killed})
	k.mu.Unlock()
}

// midBody delivers the first `left` bytes of a streamed reply, then kills the machine; what had not been delivered
// by then is lost with the connection (the client may have buffered it already, a real connection would not
// have), so every later Read fails.
type midBody struct {
	io.ReadCloser
	left int
	dead bool
	hit  func()
}

func (b *midBody) Read(p []byte) (int, error) {
	if b.dead {
		return 0, fmt.Errorf("verif: read: connection reset by peer")
	}
	if b.left <= 0 {
		b.dead = true
		b.hit()
		return 0, fmt.Errorf("verif: read: connection reset by peer")
	}
	if len(p) > b.left {
		p = p[:b.left]
	}
	n, err := b.ReadCloser.Read(p)
	b.left -= n
	if err != nil { // the reply was shorter than the kill point: the machine dies right after it
		b.dead = true
		b.hit()
	}
	return n, err
}

func (k *killer) RoundTrip(req *http.Request) (*http.Response, error) {
	method := path.Base(req.URL.Path)
	addr := req.URL.Scheme + "://" + req.URL.Host
	var pl *killPlan
	k.mu.Lock()
	if k.dead[addr] {
		// A killed machine stays dead: the test system's machines listen on ephemeral ports, and a replacement
		// machine may be given the port of the machine it replaces; calls still addressed to the dead machine
		// (retries of calls that were in flight) must not reach the newcomer.
		k.mu.Unlock()
		for i := 0; i < k.sys.N(); i++ {
			func() {
				defer func() { recover() }()
				if k.sys.Index(i).Addr == addr {
					k.mu.Lock()
					k.reused++
					k.mu.Unlock()
				}
			}()
		}
		return nil, fmt.Errorf("verif: connect %s: machine was killed", addr)
	}
	k.counts[method]++
	n := k.counts[method]
	for i := range k.plans {
		if p := &k.plans[i]; !p.fired && p.Method == method && p.Ordinal == n {
			p.fired = true
			cp := *p
			pl = &cp
			break
		}
	}
	k.mu.Unlock()
	if pl == nil {
		return k.base.RoundTrip(req)
	}
	switch pl.Phase {
	case "fail": // the call does not reach the machine (which stays up)
		k.mu.Lock()
		if k.onFail != nil {
			k.onFail()
		}
		k.nfired++
		k.log = append(k.log, vtr.Rec{"method": pl.Method, "ordinal": pl.Ordinal, "phase": pl.Phase, "killed": false})
		k.mu.Unlock()
		return nil, fmt.Errorf("verif: call to %s failed", addr)
	case "before":
		k.kill(addr, pl)
		return k.base.RoundTrip(req)
	case "mid":
		resp, err := k.base.RoundTrip(req)
		if err != nil {
			k.kill(addr, pl)
			return resp, err
		}
		resp.Body = &midBody{ReadCloser: resp.Body, left: pl.Bytes, hit: func() { k.kill(addr, pl) }}
		return resp, nil
	default: // after, afterlost: the call runs to completion on the machine first
		resp, err := k.base.RoundTrip(req)
		if err != nil {
			k.kill(addr, pl)
			return resp, err
		}
		body, rerr := ioutil.ReadAll(resp.Body)
		resp.Body.Close()
		if pl.Phase == "drop" {
			k.mu.Lock()
			k.nfired++
			k.log = append(k.log, vtr.Rec{"method": pl.Method, "ordinal": pl.Ordinal, "phase": pl.Phase, "killed": false})
			k.mu.Unlock()
			return nil, fmt.Errorf("verif: reply from %s lost", addr)
		}
		k.kill(addr, pl)
		if pl.Phase == "afterdelay" && rerr == nil {
			// the reply reaches the caller only after the loss of the machine has been noticed
			// (keepalive timeout 2 s): "between a task's completion and the driver learning of it"
			time.Sleep(3500 * time.Millisecond)
		}
		if pl.Phase == "afterlost" || rerr != nil {
			return nil, fmt.Errorf("verif: connection to %s lost", addr)
		}
		resp.Body = ioutil.NopCloser(bytes.NewReader(body))
		return resp, nil
	}
}

func init() {
	if d, err := ioutil.TempDir(vtr.OutDir(), "vfault"); err == nil {
		vfault.Reset(d)
	}
	// same shape as the production policy (exponential back-off, 5 retries), scaled down
	exec.VerifSetRetryPolicy(retry.MaxRetries(retry.Backoff(20*time.Millisecond, 200*time.Millisecond, 2), 5))
}

// readCacheFile decodes a cache shard file the way a later run would: "absent", "corrupt:<why>" or its rows.
func readCacheFile(path string) vtr.Rec {
	bad := func(why string) vtr.Rec { return vtr.Rec{"state": "corrupt", "rows": [][]int{}, "why": why} }
	f, err := os.Open(path)
	if err != nil {
		return vtr.Rec{"state": "absent", "rows": [][]int{}, "why": ""}
	}
	defer f.Close()
	zr, err := zstd.NewReader(f)
	if err != nil {
		return bad(err.Error())
	}
	defer zr.Close()
	rd := sliceio.NewDecodingReader(zr)
	typ := slicetype.New(reflect.TypeOf(int(0)), reflect.TypeOf(int(0)))
	rows := [][]int{}
	ctx := context.Background()
	for {
		fr := frame.Make(typ, 64, 64)
		n, err := rd.Read(ctx, fr)
		for i := 0; i < n; i++ {
			rows = append(rows, []int{int(fr.Index(0, i).Int()), int(fr.Index(1, i).Int())})
		}
		if err == sliceio.EOF {
			return vtr.Rec{"state": "ok", "rows": rows, "why": ""}
		}
		if err != nil {
			return bad(err.Error())
		}
	}
}

// runIsolated runs one scenario in a child process (this test binary re-executed), so that a crash of the
// driver process is an observation, not the end of the harness.
func runIsolated(sc *scenario) vtr.Rec {
	dir, err := ioutil.TempDir("", "verifiso")
	if err != nil {
		panic(err)
	}
	defer os.RemoveAll(dir)
	b, _ := json.Marshal([]*scenario{sc})
	if err := ioutil.WriteFile(dir+"/case.json", b, 0644); err != nil {
		panic(err)
	}
	to := sc.TimeoutS
	if to <= 0 {
		to = 120
	}
	to = to*(len(sc.Steps)+1) + 60
	ctx, cancel := context.WithTimeout(context.Background(), time.Duration(to+90)*time.Second)
	defer cancel()
	cmd := osexec.CommandContext(ctx, os.Args[0], "-test.run", "TestVerifProgChild$", "-test.timeout", fmt.Sprintf("%ds", to+80))
	cmd.Env = append(os.Environ(), "VERIF_CHILD_CASE="+dir+"/case.json", "VERIF_CHILD_OUT="+dir+"/out.json")
	outb, runErr := cmd.CombinedOutput()
	var rec vtr.Rec
	if data, rerr := ioutil.ReadFile(dir + "/out.json"); rerr == nil && json.Unmarshal(data, &rec) == nil && rec != nil {
		return rec
	}
	tail := string(outb)
	if i := strings.Index(tail, "panic:"); i >= 0 {
		tail = tail[i:]
	}
	if len(tail) > 1500 {
		tail = tail[:1500]
	}
	return vtr.Rec{"id": sc.ID, "exec": sc.Exec, "parallelism": sc.Parallelism, "maxload": sc.MaxLoad, "machcomb": sc.MachComb,
		"machprocs": sc.MachProcs, "chunk": sc.Chunk, "canary": sc.Canary, "events": []vtr.Rec{}, "hung": false, "loss": sc.Loss,
		"crashed": true, "crash": fmt.Sprintf("%v: %s", runErr, tail)}
}

// TestVerifProgChild runs the single scenario of $VERIF_CHILD_CASE (see runIsolated).
func TestVerifProgChild(t *testing.T) {
	path := os.Getenv("VERIF_CHILD_CASE")
	if path == "" {
		t.Skip("not a child")
	}
	var scs []*scenario
	vtr.ReadJSON(path, &scs)
	rec := runScenario(scs[0])
	b, err := json.Marshal(rec)
	if err != nil {
		t.Fatal(err)
	}
	if err := ioutil.WriteFile(os.Getenv("VERIF_CHILD_OUT"), b, 0644); err != nil {
		t.Fatal(err)
	}
}

// TestVerifProg runs the scenarios of $VERIF_CASES; writes $VERIF_OUT/prog_records.ndjson.
func TestVerifProg(t *testing.T) {
	path := os.Getenv("VERIF_CASES")
	if path == "" {
		t.Skip("no cases")
	}
	var scs []*scenario
	vtr.ReadJSON(path, &scs)
	// process-wide internal size parameters (C04): the whole batch of scenarios runs under them
	if v := vtr.EnvInt("VERIF_CHUNK", 0); v > 0 {
		defaultsize.Chunk = v
	}
	if v := vtr.EnvInt("VERIF_CANARY", 0); v > 0 {
		defaultsize.SortCanary = v
	}
	if v := vtr.EnvInt("VERIF_SPILLBATCH", 0); v > 0 {
		sliceio.SpillBatchSize = v
	}
	if vtr.EnvInt("VERIF_FASTBOOT", 0) > 0 {
		// bigmachine gives a machine minutes to come up (constants of the dependency); scaled down so that the
		// loss of a machine during boot is noticed, and the machine replaced, within a step's deadline (C02)
		bigmachine.BootPingTimeout, bigmachine.BootPingRpcTimeout = 6*time.Second, 2*time.Second
		bigmachine.BootCallTimeout, bigmachine.BootCallRpcTimeout = 6*time.Second, 2*time.Second
	}
	if vtr.EnvInt("VERIF_NOSHUFFLEREADERS", 0) > 0 {
		exec.DoShuffleReaders = false
	}
	w := vtr.Create("prog_records.ndjson")
	defer w.Close()
	workers := vtr.EnvInt("VERIF_WORKERS", 4)
	var (
		wg  sync.WaitGroup
		idx = make(chan int)
		out = make([]vtr.Rec, len(scs))
	)
	for k := 0; k < workers; k++ {
		wg.Add(1)
		go func() {
			defer wg.Done()
			for i := range idx {
				if scs[i].Isolate {
					out[i] = runIsolated(scs[i])
				} else {
					out[i] = runScenario(scs[i])
				}
			}
		}()
	}
	for i := range scs {
		idx <- i
	}
	close(idx)
	wg.Wait()
	for _, r := range out {
		w.Put(r)
	}
	_ = sort.Ints
	_ = strings.TrimSpace
}
