package sliceio_test

// C07 harness (work copy only): writes batches of rows through the real Encoder, reads them back through
// the real decoding reader with varying destination sizes, then damages the encoded bytes (every single
// bit flip, every truncation point of small streams; random bursts) and records what the reader did.
// specs/Codec.tla is the judge.

import (
	"bytes"
	"context"
	"fmt"
	"math/rand"
	"os"
	"reflect"
	"testing"

	"github.com/grailbio/bigslice/frame"
	"github.com/grailbio/bigslice/internal/vtr"
	"github.com/grailbio/bigslice/sliceio"
	"github.com/grailbio/bigslice/slicetype"
)

type c07Pair struct {
	A int
	B string
}

type c07AB struct{ A, B int }

// c07Reuse: read into the same destination frame again and again (per size), as a caller with a loop buffer does
var c07Reuse bool

type c07Case struct {
	ID      int    `json:"id"`
	Types   string `json:"types"` // i int, s string, p gob struct, b []byte, f float64
	Batches []int  `json:"batches"`
	Dests   []int  `json:"dests"`
	Damage  bool   `json:"damage"`
	Bursts  int    `json:"bursts"`
	Seed    int64  `json:"seed"`
	Reuse   bool   `json:"reuse"`
}

func c07Type(types string) slicetype.Type {
	ts := make([]reflect.Type, len(types))
	for i := range ts {
		switch types[i] {
		case 'i':
			ts[i] = reflect.TypeOf(int(0))
		case 's':
			ts[i] = reflect.TypeOf("")
		case 'p':
			ts[i] = reflect.TypeOf(c07Pair{})
		case 'b':
			ts[i] = reflect.TypeOf([]byte(nil))
		case 'f':
			ts[i] = reflect.TypeOf(float64(0))
		case 'm':
			ts[i] = reflect.TypeOf(map[string]int(nil))
		case 'a':
			ts[i] = reflect.TypeOf([2]c07AB{})
		}
	}
	return slicetype.New(ts...)
}

// value of column c in (global) row r
func c07Set(v reflect.Value, ch byte, r, c int) {
	x := r*7 + c*3 + 1
	switch ch {
	case 'i':
		v.SetInt(int64(x))
	case 'f':
		v.SetFloat(float64(x) + 0.5)
	case 's':
		v.SetString(fmt.Sprintf("s%d", x))
	case 'b':
		v.SetBytes([]byte{byte(x), byte(x >> 3)})
	case 'p':
		v.Set(reflect.ValueOf(c07Pair{A: x, B: fmt.Sprintf("p%d", x%5)}))
	case 'm':
		// different key sets from row to row (gob merges into a map that is already there)
		m := map[string]int{fmt.Sprintf("k%d", x%3): x}
		if r%2 == 0 {
			m["e"] = x + 1
		}
		v.Set(reflect.ValueOf(m))
	case 'a':
		// zero fields in varying places (gob does not transmit zero fields: a stale value would stay)
		var a [2]c07AB
		if r%2 == 0 {
			a[0].A, a[1].B = x, x+1
		} else {
			a[0].B, a[1].A = x, x+2
		}
		if r%3 == 0 {
			a = [2]c07AB{}
		}
		v.Set(reflect.ValueOf(a))
	}
}

func c07Ok(v reflect.Value, ch byte, r, c int) bool {
	w := reflect.New(v.Type()).Elem()
	c07Set(w, ch, r, c)
	return reflect.DeepEqual(v.Interface(), w.Interface())
}

// readAll reads the stream with the given destination sizes; returns number of rows delivered, whether
// they were exactly rows 0..n-1, and how it ended.
func c07ReadAll(data []byte, types string, dests []int) (n int, correct bool, end string, reads [][]int) {
	correct = true
	defer func() {
		if e := recover(); e != nil {
			end = "panic"
		}
	}()
	typ := c07Type(types)
	r := sliceio.NewDecodingReader(bytes.NewReader(data))
	ctx := context.Background()
	type kept struct {
		f     frame.Frame
		n0, m int
	}
	var (
		keep  []kept
		bufs  = map[int]frame.Frame{}
		reuse = c07Reuse
	)
	// rows delivered earlier must still be what they were when the stream is finished (no sharing with later rows)
	defer func() {
		for _, kf := range keep {
			for j := 0; j < kf.m; j++ {
				for c := range types {
					if !c07Ok(kf.f.Index(c, j), types[c], kf.n0+j, c) {
						correct = false
					}
				}
			}
		}
	}()
	for i := 0; i < 100000; i++ {
		k := dests[i%len(dests)]
		f, have := bufs[k]
		if !reuse || !have {
			f = frame.Make(typ, k, k)
			bufs[k] = f
		}
		m, err := r.Read(ctx, f)
		if !reuse && m > 0 && m <= k && len(keep) < 64 {
			keep = append(keep, kept{f, n, m})
		}
		reads = append(reads, []int{k, m})
		if m < 0 || m > k {
			correct = false
			m = 0
		}
		for j := 0; j < m; j++ {
			for c := range types {
				if !c07Ok(f.Index(c, j), types[c], n+j, c) {
					correct = false
				}
			}
		}
		n += m
		if err == sliceio.EOF {
			end = "EOF"
			return
		}
		if err != nil {
			end = "err"
			return
		}
	}
	end = "endless"
	return
}

func c07Run(c *c07Case) (rec vtr.Rec) {
	rec = vtr.Rec{"id": c.ID, "types": c.Types, "batches": c.Batches, "dests": c.Dests}
	c07Reuse = c.Reuse
	defer func() {
		if e := recover(); e != nil {
			rec["panic"] = fmt.Sprint(e)
		}
	}()
	typ := c07Type(c.Types)
	var b bytes.Buffer
	enc := sliceio.NewEncodingWriter(&b)
	ctx := context.Background()
	row := 0
	bounds := []int{}
	for _, n := range c.Batches {
		f := frame.Make(typ, n, n)
		for j := 0; j < n; j++ {
			for col := range c.Types {
				c07Set(f.Index(col, j), c.Types[col], row+j, col)
			}
		}
		if err := enc.Write(ctx, f); err != nil {
			rec["encerr"] = err.Error()
			return
		}
		row += n
		bounds = append(bounds, b.Len())
	}
	data := append([]byte{}, b.Bytes()...)
	rec["total"] = row
	rec["bounds"] = bounds
	rec["nbytes"] = len(data)
	n, ok, end, reads := c07ReadAll(data, c.Types, c.Dests)
	rec["rt"] = vtr.Rec{"n": n, "correct": ok, "end": end, "reads": reads}
	dmg := [][]interface{}{}
	if c.Damage {
		batchOf := func(off int) int {
			for i, bd := range bounds {
				if off < bd {
					return i
				}
			}
			return len(bounds)
		}
		for off := 0; off < len(data); off++ {
			for bit := 0; bit < 8; bit++ {
				d := append([]byte{}, data...)
				d[off] ^= 1 << uint(bit)
				n, ok, end, _ := c07ReadAll(d, c.Types, c.Dests)
				dmg = append(dmg, []interface{}{"flip", off, bit, batchOf(off), n, ok, end})
			}
		}
		for off := 0; off < len(data); off++ {
			n, ok, end, _ := c07ReadAll(data[:off], c.Types, c.Dests)
			dmg = append(dmg, []interface{}{"trunc", off, 0, batchOf(off), n, ok, end})
		}
	}
	if c.Bursts > 0 {
		rng := rand.New(rand.NewSource(c.Seed))
		for k := 0; k < c.Bursts && len(data) > 0; k++ {
			d := append([]byte{}, data...)
			off := rng.Intn(len(d))
			l := 1 + rng.Intn(4)
			first := off
			for j := 0; j < l && off+j < len(d); j++ {
				d[off+j] ^= byte(1 + rng.Intn(255))
			}
			bidx := 0
			for i, bd := range bounds {
				if first < bd {
					bidx = i
					break
				}
			}
			n, ok, end, _ := c07ReadAll(d, c.Types, c.Dests)
			dmg = append(dmg, []interface{}{"burst", first, l, bidx, n, ok, end})
		}
	}
	rec["damage"] = dmg
	return
}

func TestVerifC07(t *testing.T) {
	path := os.Getenv("VERIF_CASES")
	if path == "" {
		t.Skip("no cases")
	}
	var cases []*c07Case
	vtr.ReadJSON(path, &cases)
	w := vtr.Create("c07_records.ndjson")
	defer w.Close()
	for _, c := range cases {
		w.Put(c07Run(c))
	}
}
