package exec

// C14 harness (work copy only). (1) schedule(): placement decisions for small request queues and machine
// loads, replayed through the real function. (2) A live machineManager on a bigmachine testsystem driven
// by offer / cancel / done(ok, remote error, transport error) / kill / wait events; the manager's hook
// events (with snapshots of need, pending, loads, health) are recorded. specs/ClusterMon.tla judges.

import (
	"container/heap"
	"context"
	"errors"
	"fmt"
	"net/http"
	"os"
	"runtime"
	"strconv"
	"strings"
	"sync"
	"testing"
	"time"

	baseerrors "github.com/grailbio/base/errors"
	"github.com/grailbio/bigslice"
	"github.com/grailbio/bigmachine"
	"github.com/grailbio/bigmachine/testsystem"
	"github.com/grailbio/bigslice/internal/vtr"
)

type c14Case struct {
	ID    int    `json:"id"`
	Mode  string `json:"mode"` // place | live
	// place
	Reqs  [][]int `json:"reqs"`  // [priority, procs]
	Machs [][]int `json:"machs"` // [max, load]
	// live
	MachProcs int             `json:"machprocs"`
	MaxP      int             `json:"maxp"`
	MaxLoad   float64         `json:"maxload"`
	Events    [][]interface{} `json:"events"`
	ProbationMs int           `json:"probation_ms"`
	BootKills   []int         `json:"bootkills"` // ordinals of Worker.FuncLocations calls whose machine dies while booting
	E2E         []int         `json:"e2e"`       // mode e2e: a real session runs one task per entry, with that Procs pragma
	MachComb    bool          `json:"machcomb"`  // mode e2e: machine combiners on, the program is a Reduce over E2E[0] shards
	KillCall    string        `json:"killcall"`  // mode e2e: the machine serving the KillN'th call of this RPC method dies at that call
	KillN       int           `json:"killn"`
}

func c14Place(c *c14Case) vtr.Rec {
	var (
		sq scheduleRequestQ
		mq machineQ
	)
	reqs := make([]*scheduleRequest, len(c.Reqs))
	for i, r := range c.Reqs {
		reqs[i] = &scheduleRequest{priority: r[0], procs: r[1]}
		heap.Push(&sq, reqs[i])
	}
	machs := make([]*sliceMachine, len(c.Machs))
	for i, m := range c.Machs {
		machs[i] = &sliceMachine{maxTaskProcs: m[0], taskProcs: m[1]}
		heap.Push(&mq, machs[i])
	}
	r, m := schedule(&sq, &mq)
	ri, mi := -1, -1
	for i := range reqs {
		if reqs[i] == r {
			ri = i
		}
	}
	for i := range machs {
		if machs[i] == m {
			mi = i
		}
	}
	return vtr.Rec{"id": c.ID, "mode": "place", "reqs": c.Reqs, "machs": c.Machs, "req": ri, "mach": mi,
		"qlen": len(sq), "mlen": len(mq)}
}

type c14Live struct {
	mu      sync.Mutex
	w       []vtr.Rec
	seq     int
	machIdx map[*sliceMachine]int
	machs   []*sliceMachine
	reqIdx  map[*scheduleRequest]int
	pendReq []int // rids in the order Offer was called (MgrOffer events arrive in the same order)
	changed chan struct{}
	quiet   bool
	pending int
	mprocs  interface{} // procs per machine, from the last MgrStart
	auto    bool        // requests come from a real session: number them as they are offered
	own     int         // goroutine of the manager under observation
	multi   bool        // record every manager loop (the repository's own tests): events are split by goroutine later
	nextRid int
}

func (l *c14Live) mach(m *sliceMachine) int {
	if i, ok := l.machIdx[m]; ok {
		return i
	}
	l.machIdx[m] = len(l.machs)
	l.machs = append(l.machs, m)
	return len(l.machs) - 1
}

func c14ErrKind(err error) string {
	switch {
	case err == nil:
		return "nil"
	case baseerrors.Is(baseerrors.Remote, err):
		return "remote"
	}
	return "transport"
}

func (l *c14Live) hook(ev string, args ...interface{}) {
	if len(ev) < 3 || ev[:3] != "Mgr" {
		return
	}
	gid := c14Gid()
	l.mu.Lock()
	defer l.mu.Unlock()
	if ev == "MgrOffer" && l.own == 0 && !l.multi {
		// the manager under observation is the one that receives the first offer: managers of earlier
		// sessions that are still winding down (their minute ticker also passes through MgrSelect) get none
		l.own = gid
	}
	l.seq++
	r := vtr.Rec{"ev": ev, "seq": l.seq, "gid": gid}
	switch ev {
	case "MgrSelect":
		r["offering"] = args[0].(bool)
		r["need"], r["pending"], r["nok"], r["nprob"], r["nq"] = args[1], args[2], args[3], args[4], args[5]
		l.quiet = !args[0].(bool)
		l.pending = args[2].(int)
	case "MgrGrant":
		req := args[1].(*scheduleRequest)
		r["m"], r["rid"], r["procs"], r["prio"] = l.mach(args[0].(*sliceMachine)), l.reqIdx[req], req.procs, req.priority
		r["load"], r["max"], r["health"], r["need"] = args[2], args[3], args[4], args[5]
		l.quiet = false
	case "MgrProbationExpire":
		r["m"], r["health"] = l.mach(args[0].(*sliceMachine)), args[1]
		l.quiet = false
	case "MgrDone":
		var err error
		if args[2] != nil {
			err = args[2].(error)
		}
		r["m"], r["procs"], r["err"], r["load"], r["health"], r["need"] = l.mach(args[0].(*sliceMachine)), args[1], c14ErrKind(err), args[3], args[4], args[5]
		l.quiet = false
	case "MgrOffer":
		req := args[0].(*scheduleRequest)
		rid := -1
		if len(l.pendReq) > 0 {
			rid = l.pendReq[0]
			l.pendReq = l.pendReq[1:]
		} else if l.auto {
			l.nextRid++
			rid = 1000 + l.nextRid
		}
		l.reqIdx[req] = rid
		r["rid"], r["procs"], r["prio"], r["need"] = rid, req.procs, req.priority, args[1]
		l.quiet = false
	case "MgrCancel":
		req := args[0].(*scheduleRequest)
		r["rid"], r["procs"], r["need"] = l.reqIdx[req], req.procs, args[1]
		l.quiet = false
	case "MgrStarted":
		ms := args[0].([]*sliceMachine)
		ids := []int{}
		for _, m := range ms {
			ids = append(ids, l.mach(m))
		}
		r["machines"], r["nfail"], r["pending"], r["machprocs"] = ids, args[1], args[2], l.mprocs
		maxes := []int{}
		for _, m := range ms {
			maxes = append(maxes, m.maxTaskProcs)
		}
		r["maxes"] = maxes
		l.quiet = false
	case "MgrStopped":
		r["m"], r["nok"], r["nprob"] = l.mach(args[0].(*sliceMachine)), args[1], args[2]
		l.quiet = false
	case "MgrStart":
		r["nmach"], r["pending"], r["have"], r["need"], r["maxp"], r["machprocs"] = args[0], args[1], args[2], args[3], args[4], args[5]
		l.mprocs = args[5]
		l.quiet = false
	}
	l.w = append(l.w, r)
	select {
	case l.changed <- struct{}{}:
	default:
	}
}

// c14Gid returns the id of the calling goroutine (each machineManager.Do loop is one goroutine).
func c14Gid() int {
	var buf [64]byte
	n := runtime.Stack(buf[:], false)
	f := strings.Fields(string(buf[:n]))
	if len(f) < 2 {
		return -1
	}
	id, _ := strconv.Atoi(f[1])
	return id
}

// events returns the recorded events without those of other managers' loops.
func (l *c14Live) events() []vtr.Rec {
	l.mu.Lock()
	defer l.mu.Unlock()
	out := []vtr.Rec{}
	for _, r := range l.w {
		if g, ok := r["gid"]; ok && l.own != 0 && g.(int) != l.own {
			continue
		}
		out = append(out, r)
	}
	return out
}

func (l *c14Live) emit(r vtr.Rec) {
	l.mu.Lock()
	l.seq++
	r["seq"] = l.seq
	l.w = append(l.w, r)
	l.mu.Unlock()
}

// settle waits until the manager loop is blocked in its select with nothing on offer and no machine
// start outstanding, and nothing happens for a short while.
func (l *c14Live) settle() bool {
	deadline := time.Now().Add(20 * time.Second)
	for time.Now().Before(deadline) {
		l.mu.Lock()
		q := l.quiet && l.pending == 0
		n := l.seq
		l.mu.Unlock()
		if q {
			time.Sleep(3 * time.Millisecond)
			l.mu.Lock()
			same := l.seq == n && l.quiet && l.pending == 0
			l.mu.Unlock()
			if same {
				return true
			}
			continue
		}
		select {
		case <-l.changed:
		case <-time.After(20 * time.Millisecond):
		}
	}
	return false
}

// c14Func: one single-shard task per entry of procs, each with that Procs pragma, joined so that they all belong to
// one run and are offered to the machine manager together.
var c14Func = bigslice.Func(func(procs []int) bigslice.Slice {
	var ss []bigslice.Slice
	for i, p := range procs {
		i := i
		src := bigslice.Const(1, []int{i}, []int{1})
		ss = append(ss, bigslice.Map(src, func(k, v int) (int, int) {
			time.Sleep(30 * time.Millisecond) // keep the procs for a while so that tasks overlap
			return k, v
		}, bigslice.Procs(p)))
	}
	return bigslice.Cogroup(ss...)
})

// c14ReduceFunc: a Reduce whose map side runs in nshard tasks (with machine combiners: one shared combiner per
// machine that the reduce side asks each machine to commit before it reads).
var c14ReduceFunc = bigslice.Func(func(nshard int) bigslice.Slice {
	keys, vals := make([]int, 40*nshard), make([]int, 40*nshard)
	for i := range keys {
		keys[i], vals[i] = i%17, 1
	}
	s := bigslice.Const(nshard, keys, vals)
	s = bigslice.Map(s, func(k, v int) (int, int) { return k, v })
	return bigslice.Reduce(s, func(a, b int) int { return a + b })
})

// c14RunE2E records the machine manager's events while a real session runs tasks with Procs pragmas (the
// executor's own Offer / Done calls, on every exit path of bigmachineExecutor.Run).
func c14RunE2E(c *c14Case) (rec vtr.Rec) {
	rec = vtr.Rec{"id": c.ID, "mode": "live", "machprocs": c.MachProcs, "maxp": c.MaxP, "maxload": c.MaxLoad}
	l := &c14Live{machIdx: map[*sliceMachine]int{}, reqIdx: map[*scheduleRequest]int{}, changed: make(chan struct{}, 1), auto: true}
	verifHook = l.hook
	defer func() { verifHook = nil }()
	system := testsystem.New()
	system.Machineprocs = c.MachProcs
	system.KeepalivePeriod = 100 * time.Millisecond
	system.KeepaliveTimeout = 400 * time.Millisecond
	system.KeepaliveRpcTimeout = 100 * time.Millisecond
	opts := []Option{Bigmachine(system), Parallelism(c.MaxP), MaxLoad(c.MaxLoad)}
	if c.MachComb {
		opts = append(opts, MachineCombiners)
	}
	if c.KillCall != "" {
		cl := system.HTTPClient()
		cl.Transport = &c14BootKiller{sys: system, base: cl.Transport, at: []int{c.KillN}, suffix: c.KillCall}
	}
	sess := Start(opts...)
	to := 60 * time.Second
	if c.KillCall != "" {
		to = 25 * time.Second // (a session with machine combiners need not survive the loss; only the ledger is judged)
	}
	ctx, cancel := context.WithTimeout(context.Background(), to)
	var err error
	if c.MachComb {
		_, err = sess.Run(ctx, c14ReduceFunc, c.E2E[0])
	} else {
		_, err = sess.Run(ctx, c14Func, c.E2E)
	}
	cancel()
	es := ""
	if err != nil {
		es = err.Error()
	}
	l.settle()
	done := make(chan struct{})
	go func() { sess.Shutdown(); close(done) }()
	select {
	case <-done:
	case <-time.After(10 * time.Second):
	}
	rec["events"] = l.events()
	rec["stalled"] = false
	rec["runerr"] = es
	// Run has returned by itself: every task of the run has ended. (If it was cut off by the scenario's deadline its
	// tasks may still be running in the executor, which does not use the caller's context.)
	rec["ended"] = err == nil || !strings.Contains(es, "deadline exceeded")
	rec["mayfail"] = c.KillCall != ""
	return
}

var errC14Transport = errors.New("c14 transport error")

// c14BootKiller kills the machine serving the n'th Worker.FuncLocations call (the executor's handshake with a
// machine that has just come up), for the n in at: a machine lost while it is being started.
type c14BootKiller struct {
	mu   sync.Mutex
	sys  *testsystem.System
	base http.RoundTripper
	at   []int
	n    int
	suffix string // RPC method; default Worker.FuncLocations
}

func (k *c14BootKiller) RoundTrip(req *http.Request) (*http.Response, error) {
	suffix := k.suffix
	if suffix == "" {
		suffix = "Worker.FuncLocations"
	}
	if !strings.HasSuffix(req.URL.Path, suffix) {
		return k.base.RoundTrip(req)
	}
	k.mu.Lock()
	k.n++
	hit := false
	for _, a := range k.at {
		hit = hit || a == k.n
	}
	k.mu.Unlock()
	if !hit {
		return k.base.RoundTrip(req)
	}
	addr := req.URL.Scheme + "://" + req.URL.Host
	done := make(chan struct{})
	go func() {
		defer close(done)
		for i := 0; i < k.sys.N(); i++ {
			func() {
				defer func() { recover() }()
				if m := k.sys.Index(i); m.Addr == addr {
					k.sys.Kill(m)
				}
			}()
		}
	}()
	select {
	case <-done:
	case <-time.After(5 * time.Second):
	}
	return nil, fmt.Errorf("c14: connection to %s lost", addr)
}

func c14RunLive(c *c14Case) (rec vtr.Rec) {
	rec = vtr.Rec{"id": c.ID, "mode": "live", "machprocs": c.MachProcs, "maxp": c.MaxP, "maxload": c.MaxLoad}
	l := &c14Live{machIdx: map[*sliceMachine]int{}, reqIdx: map[*scheduleRequest]int{}, changed: make(chan struct{}, 1)}
	oldPT := ProbationTimeout
	ProbationTimeout = time.Duration(c.ProbationMs) * time.Millisecond
	if c.ProbationMs == 0 {
		ProbationTimeout = 150 * time.Millisecond
	}
	verifHook = l.hook
	defer func() { verifHook = nil; ProbationTimeout = oldPT }()
	system := testsystem.New()
	system.Machineprocs = c.MachProcs
	system.KeepalivePeriod = 100 * time.Millisecond
	system.KeepaliveTimeout = 400 * time.Millisecond
	system.KeepaliveRpcTimeout = 100 * time.Millisecond
	if len(c.BootKills) > 0 {
		cl := system.HTTPClient()
		cl.Transport = &c14BootKiller{sys: system, base: cl.Transport, at: c.BootKills}
	}
	b := bigmachine.Start(system)
	ctx, cancel := context.WithCancel(context.Background())
	m := newMachineManager(b, nil, nil, c.MaxP, c.MaxLoad, &worker{MachineCombiners: false})
	var wg sync.WaitGroup
	wg.Add(1)
	go func() { defer wg.Done(); m.Do(ctx) }()
	type grant struct {
		mach  *sliceMachine
		procs int
		done  bool
	}
	var (
		gmu     sync.Mutex
		grants  = map[int]*grant{}
		cancels = map[int]func(){}
	)
	stalled := false
	for _, ev := range c.Events {
		applied := true
		switch ev[0].(string) {
		case "offer":
			rid, prio, procs := int(ev[1].(float64)), int(ev[2].(float64)), int(ev[3].(float64))
			l.mu.Lock()
			l.pendReq = append(l.pendReq, rid)
			l.quiet = false
			l.mu.Unlock()
			l.emit(vtr.Rec{"ev": "HOffer", "rid": rid, "prio": prio, "procs": procs})
			machc, cf := m.Offer(prio, procs)
			cancels[rid] = cf
			go func() {
				select {
				case mach := <-machc:
					if mach != nil {
						gmu.Lock()
						grants[rid] = &grant{mach: mach, procs: procs}
						gmu.Unlock()
					}
				case <-ctx.Done():
				}
			}()
		case "cancel":
			rid := int(ev[1].(float64))
			gmu.Lock()
			_, granted := grants[rid]
			gmu.Unlock()
			cf := cancels[rid]
			if cf == nil || granted {
				applied = false
				break
			}
			delete(cancels, rid)
			l.mu.Lock()
			l.quiet = false
			l.mu.Unlock()
			l.emit(vtr.Rec{"ev": "HCancel", "rid": rid})
			cf()
		case "done":
			rid := int(ev[1].(float64))
			gmu.Lock()
			g := grants[rid]
			gmu.Unlock()
			if g == nil || g.done {
				applied = false
				break
			}
			g.done = true
			var err error
			switch ev[2].(string) {
			case "remote":
				err = baseerrors.E(baseerrors.Remote, "c14 remote error")
			case "transport":
				err = errC14Transport
			}
			l.mu.Lock()
			l.quiet = false
			l.mu.Unlock()
			l.emit(vtr.Rec{"ev": "HDone", "rid": rid, "err": ev[2]})
			g.mach.Done(g.procs, err)
		case "kill":
			k := int(ev[1].(float64))
			l.mu.Lock()
			var mach *sliceMachine
			if k < len(l.machs) {
				mach = l.machs[k]
			}
			l.mu.Unlock()
			alreadyLost := false
			l.mu.Lock()
			for _, r := range l.w {
				if r["ev"] == "MgrStopped" && r["m"] == k {
					alreadyLost = true
				}
			}
			l.mu.Unlock()
			if mach == nil || alreadyLost {
				applied = false
				break
			}
			l.mu.Lock()
			l.quiet = false
			l.mu.Unlock()
			l.emit(vtr.Rec{"ev": "HKill", "m": k})
			system.Kill(mach.Machine)
			// wait for the manager to notice
			for i := 0; i < 1000; i++ {
				l.mu.Lock()
				seen := false
				for _, r := range l.w {
					if r["ev"] == "MgrStopped" && r["m"] == k {
						seen = true
					}
				}
				l.mu.Unlock()
				if seen {
					break
				}
				time.Sleep(10 * time.Millisecond)
			}
		case "wait":
			time.Sleep(time.Duration(ev[1].(float64)) * time.Millisecond)
		}
		if !applied {
			l.emit(vtr.Rec{"ev": "HSkip", "step": ev})
			continue
		}
		if !l.settle() {
			l.emit(vtr.Rec{"ev": "HStall", "after": fmt.Sprint(ev)})
			stalled = true
			break
		}
	}
	cancel()
	done := make(chan struct{})
	go func() { b.Shutdown(); wg.Wait(); close(done) }()
	select {
	case <-done:
	case <-time.After(10 * time.Second):
	}
	rec["events"] = l.events()
	rec["stalled"] = stalled
	rec["ended"] = false
	rec["mayfail"] = false
	return
}

// TestVerifC14Dormant runs the repository's own machine-manager and bigmachine-executor tests under the recorder:
// every manager loop (one goroutine each) becomes one recorded session.
func TestVerifC14Dormant(t *testing.T) {
	if os.Getenv("VERIF_DORMANT") == "" {
		t.Skip("not asked for")
	}
	l := &c14Live{machIdx: map[*sliceMachine]int{}, reqIdx: map[*scheduleRequest]int{}, changed: make(chan struct{}, 1), auto: true, multi: true}
	verifHook = l.hook
	tests := []struct {
		name string
		f    func(*testing.T)
	}{
		{"TestSlicemachineLoad", TestSlicemachineLoad}, {"TestSlicemachineExclusive", TestSlicemachineExclusive},
		{"TestSlicemachineProbation", TestSlicemachineProbation}, {"TestSlicemachineProbationTimeout", TestSlicemachineProbationTimeout},
		{"TestSlicemachineLost", TestSlicemachineLost}, {"TestSlicemachinePriority", TestSlicemachinePriority},
		{"TestSlicemachineNonblockingExclusive", TestSlicemachineNonblockingExclusive},
		{"TestBigmachineExecutor", TestBigmachineExecutor}, {"TestBigmachineExecutorExclusive", TestBigmachineExecutorExclusive},
		{"TestBigmachineExecutorTaskExclusive", TestBigmachineExecutorTaskExclusive}, {"TestBigmachineExecutorProcs", TestBigmachineExecutorProcs},
		{"TestBigmachineExecutorLost", TestBigmachineExecutorLost}, {"TestBigmachineExecutorErrorRun", TestBigmachineExecutorErrorRun},
		{"TestBigmachineExecutorFatalErrorRun", TestBigmachineExecutorFatalErrorRun},
	}
	failed := []string{}
	for _, tc := range tests {
		if os.Getenv("VERIF_DORMANT") == "quick" && tc.name == "TestSlicemachineLoad" {
			continue // (thousands of offers on clusters of 90-150 procs per machine: thorough tier)
		}
		if !t.Run(tc.name, tc.f) {
			failed = append(failed, tc.name)
		}
	}
	time.Sleep(300 * time.Millisecond)
	verifHook = nil
	l.mu.Lock()
	by := map[int][]vtr.Rec{}
	order := []int{}
	for _, r := range l.w {
		g, ok := r["gid"].(int)
		if !ok {
			continue
		}
		if _, seen := by[g]; !seen {
			order = append(order, g)
		}
		by[g] = append(by[g], r)
	}
	l.mu.Unlock()
	w := vtr.Create("c14_dormant.ndjson")
	defer w.Close()
	for i, g := range order {
		w.Put(vtr.Rec{"id": 9000 + i, "mode": "live", "machprocs": 0, "maxp": 0, "maxload": 0, "events": by[g], "stalled": true,
			"ended": false, "mayfail": true, "runerr": "", "repo_tests_failed": failed})
	}
}

func TestVerifC14(t *testing.T) {
	path := os.Getenv("VERIF_CASES")
	if path == "" {
		t.Skip("no cases")
	}
	var cases []*c14Case
	vtr.ReadJSON(path, &cases)
	wp := vtr.Create("c14_place.ndjson")
	wl := vtr.Create("c14_live.ndjson")
	defer wp.Close()
	defer wl.Close()
	for _, c := range cases {
		if c.Mode == "place" {
			wp.Put(c14Place(c))
		} else {
			if c.Mode == "e2e" {
				wl.Put(c14RunE2E(c))
			} else {
				wl.Put(c14RunLive(c))
			}
		}
	}
}
