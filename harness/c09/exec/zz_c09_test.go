package exec

// C09 harness (work copy only): feeds key/value sequences into the real combiningFrame and combiner and
// records (a) after every Combine/Compact the whole hash table (cap, len, hits, occupied slots) together
// with the real hash of every key, (b) the rows read back from combiner.Reader() and what is left in the
// spill directory. specs/HashTable.tla re-executes the table algorithm and is the judge.

import (
	"context"
	"io/ioutil"
	"os"
	"reflect"
	"syscall"
	"testing"

	"github.com/grailbio/bigslice/frame"
	"github.com/grailbio/bigslice/internal/vtr"
	"github.com/grailbio/bigslice/slicefunc"
	"github.com/grailbio/bigslice/sliceio"
	"github.com/grailbio/bigslice/slicetype"
)

type c09Case struct {
	ID      int             `json:"id"`
	Mode    string          `json:"mode"` // frame | combiner
	Init    int             `json:"init"`
	Scratch int             `json:"scratch"`
	Target  int             `json:"target"`
	Ops     [][]interface{} `json:"ops"` // ["combine", [[k,v],...]] | ["compact"]
	Reads   []int           `json:"reads"`
	NKey    int             `json:"nkey"` // 1 or 2 key columns
	FDLimit int             `json:"fdlimit"` // >0: RLIMIT_NOFILE while the combiner's Reader() opens its spill files
}

func c09Frame(rows [][]int, nkey int) frame.Frame {
	cols := make([][]int, nkey+1)
	for _, r := range rows {
		for c := range cols {
			cols[c] = append(cols[c], r[c])
		}
	}
	args := make([]interface{}, len(cols))
	for i := range cols {
		if cols[i] == nil {
			cols[i] = []int{}
		}
		args[i] = cols[i]
	}
	return frame.Slices(args...).Prefixed(nkey)
}

func c09Type(nkey int) slicetype.Type {
	ts := make([]reflect.Type, nkey+1)
	for i := range ts {
		ts[i] = reflect.TypeOf(int(0))
	}
	return slicetype.New(ts...)
}

type c09typ struct {
	slicetype.Type
	prefix int
}

func (t c09typ) Prefix() int { return t.prefix }

func c09Rows(x interface{}) [][]int {
	var out [][]int
	for _, r := range x.([]interface{}) {
		var row []int
		for _, v := range r.([]interface{}) {
			row = append(row, int(v.(float64)))
		}
		out = append(out, row)
	}
	return out
}

func c09Dump(c *combiningFrame, nkey int) vtr.Rec {
	slots := [][]int{}
	for i, h := range c.hits {
		if h == 0 {
			continue
		}
		row := []int{i, h}
		for col := 0; col <= nkey; col++ {
			row = append(row, int(c.data.Index(col, i).Int()))
		}
		slots = append(slots, row)
	}
	return vtr.Rec{"cap": c.cap, "len": c.len, "slots": slots}
}

func c09Hashes(rows [][]int, nkey int, into map[string]int) {
	f := c09Frame(rows, nkey)
	for i := range rows {
		k := ""
		for c := 0; c < nkey; c++ {
			if c > 0 {
				k += ","
			}
			k += itoa(rows[i][c])
		}
		into[k] = int(f.HashWithSeed(i, hashSeed) & 0xffff)
	}
}

func itoa(n int) string {
	if n == 0 {
		return "0"
	}
	neg := n < 0
	if neg {
		n = -n
	}
	var b []byte
	for n > 0 {
		b = append([]byte{byte('0' + n%10)}, b...)
		n /= 10
	}
	if neg {
		b = append([]byte{'-'}, b...)
	}
	return string(b)
}

func c09Run(c *c09Case) (rec vtr.Rec) {
	rec = vtr.Rec{"id": c.ID, "mode": c.Mode, "init": c.Init, "scratch": c.Scratch, "target": c.Target, "nkey": c.NKey, "fdlimit": c.FDLimit}
	hashes := map[string]int{}
	fn, _ := slicefunc.Of(func(a, b int) int { return a + b })
	typ := c09typ{c09Type(c.NKey), c.NKey}
	steps := []vtr.Rec{}
	defer func() {
		if e := recover(); e != nil {
			rec["panic"] = sprint(e)
		}
		rec["steps"] = steps
		rec["hashes"] = hashes
		if rec["rows"] == nil {
			rec["rows"] = [][]int{}
		}
		if rec["leftover"] == nil {
			rec["leftover"] = []string{}
		}
	}()
	switch c.Mode {
	case "frame":
		cf := makeCombiningFrame(typ, fn, c.Init, c.Scratch)
		for _, op := range c.Ops {
			st := vtr.Rec{"op": op}
			switch op[0].(string) {
			case "combine":
				rows := c09Rows(op[1])
				c09Hashes(rows, c.NKey, hashes)
				cf.Combine(c09Frame(rows, c.NKey))
			case "compact":
				f := cf.Compact()
				out := [][]int{}
				for i := 0; i < f.Len(); i++ {
					row := []int{}
					for col := 0; col <= c.NKey; col++ {
						row = append(row, int(f.Index(col, i).Int()))
					}
					out = append(out, row)
				}
				st["out"] = out
			}
			st["table"] = c09Dump(cf, c.NKey)
			steps = append(steps, st)
		}
	case "combiner":
		tmpd, _ := ioutil.TempDir("", "verifc09")
		oldTmp := os.Getenv("TMPDIR")
		os.Setenv("TMPDIR", tmpd)
		defer func() {
			os.Setenv("TMPDIR", oldTmp)
			os.RemoveAll(tmpd)
		}()
		if c.Init > 0 {
			// the two package variables point at the same int (defaultsize.Chunk): point them at private ints
			defer func(a, b *int) { combiningFrameInitSize, combiningFrameScratchSize = a, b }(combiningFrameInitSize, combiningFrameScratchSize)
			ini, scr := c.Init, c.Scratch
			combiningFrameInitSize, combiningFrameScratchSize = &ini, &scr
		}
		ctx := context.Background()
		cb, err := newCombiner(typ, "verifc09", fn, c.Target)
		if err != nil {
			rec["err"] = err.Error()
			return
		}
		for _, op := range c.Ops {
			rows := c09Rows(op[1])
			c09Hashes(rows, c.NKey, hashes)
			if err := cb.Combine(ctx, c09Frame(rows, c.NKey)); err != nil {
				rec["err"] = err.Error()
				return
			}
			steps = append(steps, vtr.Rec{"op": op})
		}
		spills, _ := ioutil.ReadDir(tmpd)
		nsp := 0
		for _, d := range spills {
			fs, _ := ioutil.ReadDir(tmpd + "/" + d.Name())
			nsp += len(fs)
		}
		rec["spillfiles"] = nsp
		var old syscall.Rlimit
		if c.FDLimit > 0 {
			_ = syscall.Getrlimit(syscall.RLIMIT_NOFILE, &old)
			lim := old
			lim.Cur = uint64(c.FDLimit)
			_ = syscall.Setrlimit(syscall.RLIMIT_NOFILE, &lim)
		}
		r, err := cb.Reader()
		if c.FDLimit > 0 {
			_ = syscall.Setrlimit(syscall.RLIMIT_NOFILE, &old)
		}
		if err != nil {
			rec["err"] = err.Error()
			left := []string{}
			es, _ := ioutil.ReadDir(tmpd)
			for _, e := range es {
				left = append(left, e.Name())
			}
			rec["leftover"] = left
			return
		}
		out := [][]int{}
		for i := 0; i < 100000; i++ {
			k := c.Reads[i%len(c.Reads)]
			dst := frame.Make(typ, k, k)
			n, err := r.Read(ctx, dst)
			for j := 0; j < n; j++ {
				row := []int{}
				for col := 0; col <= c.NKey; col++ {
					row = append(row, int(dst.Index(col, j).Int()))
				}
				out = append(out, row)
			}
			if err == sliceio.EOF {
				break
			}
			if err != nil {
				rec["err"] = err.Error()
				break
			}
		}
		rec["rows"] = out
		left := []string{}
		es, _ := ioutil.ReadDir(tmpd)
		for _, e := range es {
			left = append(left, e.Name())
		}
		rec["leftover"] = left
	}
	return
}

func sprint(e interface{}) string {
	if s, ok := e.(string); ok {
		return s
	}
	if er, ok := e.(error); ok {
		return er.Error()
	}
	return "panic"
}

func TestVerifC09(t *testing.T) {
	path := os.Getenv("VERIF_CASES")
	if path == "" {
		t.Skip("no cases")
	}
	var cases []*c09Case
	vtr.ReadJSON(path, &cases)
	w := vtr.Create("c09_records.ndjson")
	defer w.Close()
	for _, c := range cases {
		w.Put(c09Run(c))
	}
}
