package exec

// C16 harness (work copy only): (a) FuncLocationsDiff over pairs of location lists; (b) the locations recorded
// for Funcs defined in this file; (c) gob round trips of execInvocation argument lists over a universe of
// parameter types; (d) end-to-end runs on the bigmachine executor of Funcs whose slices are built from their
// arguments (incl. nested Result arguments and an Exclusive func, and an unencodable argument).
// specs/Invocation.tla is the judge.

import (
	"bytes"
	"context"
	"encoding/gob"
	"fmt"
	"os"
	"runtime"
	"sort"
	"strings"
	"testing"
	"time"

	"github.com/grailbio/bigmachine/testsystem"
	"github.com/grailbio/bigslice"
	"github.com/grailbio/bigslice/internal/vtr"
)

type c16Case struct {
	ID   int      `json:"id"`
	Mode string   `json:"mode"` // diff | locs | args | e2e
	LHS  []string `json:"lhs"`
	RHS  []string `json:"rhs"`
	Pick int      `json:"pick"`
	Exec string   `json:"exec"`
}

type c16Struct struct {
	A int
	B string
	C []int
}

type c16Iface interface{ Tag() string }
type c16Impl struct{ X int }

func (c c16Impl) Tag() string { return fmt.Sprint("impl", c.X) }

func init() {
	gob.Register(c16Impl{})
	gob.Register(c16Struct{})
	gob.Register(map[string]int{})
	gob.Register([]int{})
}

func c16Line() int { _, _, l, _ := runtime.Caller(1); return l }

// rows of a slice built from the arguments: every argument contributes rows so that a lost, reordered or
// altered argument changes the result
func c16Rows(n int, s string, xs []int, m map[string]int, st c16Struct, any interface{}, it c16Iface) ([]int, []string) {
	ks, vs := []int{n, len(s), len(xs), len(m), st.A}, []string{"n", s, fmt.Sprint(xs), fmt.Sprint(len(m)), st.B + fmt.Sprint(st.C)}
	keys := make([]string, 0, len(m))
	for k := range m {
		keys = append(keys, k)
	}
	sort.Strings(keys)
	for _, k := range keys {
		ks, vs = append(ks, m[k]), append(vs, "m:"+k)
	}
	ks, vs = append(ks, -1), append(vs, fmt.Sprintf("any:%T:%v", any, any))
	if it != nil {
		ks, vs = append(ks, -2), append(vs, "it:"+it.Tag())
	} else {
		ks, vs = append(ks, -2), append(vs, "it:nil")
	}
	return ks, vs
}

var (
	c16FuncArgsLine = c16Line() + 1
	c16FuncArgs     = bigslice.Func(func(n int, s string, xs []int, m map[string]int, st c16Struct, any interface{}, it c16Iface) bigslice.Slice {
		ks, vs := c16Rows(n, s, xs, m, st, any, it)
		return bigslice.Const(2, ks, vs)
	})
	c16FuncBaseLine = c16Line() + 1
	c16FuncBase     = bigslice.Func(func(n int) bigslice.Slice {
		ks, vs := make([]int, n), make([]string, n)
		for i := range ks {
			ks[i], vs[i] = i, fmt.Sprint("b", i)
		}
		return bigslice.Const(2, ks, vs)
	})
	c16FuncInc = bigslice.Func(func(in bigslice.Slice) bigslice.Slice {
		return bigslice.Map(in, func(k int, v string) (int, string) { return k + 1, v + "+" })
	})
	c16FuncJoin = bigslice.Func(func(a, b bigslice.Slice) bigslice.Slice {
		return bigslice.Cogroup(a, b)
	})
	c16FuncJoinX = bigslice.Func(func(a, b bigslice.Slice) bigslice.Slice {
		return bigslice.Cogroup(a, b)
	}).Exclusive()
	c16FuncRes = bigslice.Func(func(r *Result, k int) bigslice.Slice {
		return bigslice.Map(r, func(a int, v string) (int, string) { return a * k, v })
	})
)

// argument lists for mode args/e2e, by index
func c16ArgLists() [][]interface{} {
	return [][]interface{}{
		{3, "abc", []int{1, 2, 3}, map[string]int{"x": 1, "y": 2}, c16Struct{7, "s", []int{9}}, 42, c16Impl{5}},
		{0, "", []int{}, map[string]int{}, c16Struct{}, "str", c16Impl{0}},
		{-1, "q", []int(nil), map[string]int(nil), c16Struct{1, "", nil}, nil, nil},
		{1 << 40, "üñí", []int{0}, map[string]int{"": 0}, c16Struct{-5, "z", []int{1, 2}}, c16Struct{1, "in-any", nil}, c16Impl{-3}},
		{5, "five", []int{5, 5, 5, 5, 5}, map[string]int{"a": 1, "b": 2, "c": 3}, c16Struct{5, "5", []int{5}}, []int{7, 8}, c16Impl{99}},
		{2, "m", []int{4}, map[string]int{"k": 9}, c16Struct{2, "two", nil}, map[string]int{"inner": 1}, c16Impl{1}},
	}
}

func c16JSON(v interface{}) string { return fmt.Sprintf("%T|%#v", v, v) }

func c16Scan(res *Result) ([][]string, string) {
	ctx := context.Background()
	sc := res.Scanner()
	defer sc.Close()
	rows := [][]string{}
	switch res.NumOut() {
	case 2:
		var (
			k int
			v string
		)
		for sc.Scan(ctx, &k, &v) {
			rows = append(rows, []string{fmt.Sprint(k), v})
		}
	case 3:
		var (
			k    int
			a, b []string
		)
		for sc.Scan(ctx, &k, &a, &b) {
			sort.Strings(a)
			sort.Strings(b)
			rows = append(rows, []string{fmt.Sprint(k), strings.Join(a, ","), strings.Join(b, ",")})
		}
	}
	sort.Slice(rows, func(i, j int) bool { return strings.Join(rows[i], "\x00") < strings.Join(rows[j], "\x00") })
	es := ""
	if err := sc.Err(); err != nil {
		es = err.Error()
	}
	return rows, es
}

func c16Session(ex string) *Session {
	if ex == "local" {
		return Start(Local)
	}
	sys := testsystem.New()
	sys.Machineprocs = 1
	sys.KeepalivePeriod = time.Second
	sys.KeepaliveTimeout = 2 * time.Second
	sys.KeepaliveRpcTimeout = time.Second
	return Start(Bigmachine(sys), Parallelism(2))
}

func c16Run(c *c16Case) (rec vtr.Rec) {
	rec = vtr.Rec{"id": c.ID, "mode": c.Mode, "pick": c.Pick, "exec": c.Exec}
	defer func() {
		if e := recover(); e != nil {
			rec["panic"] = fmt.Sprint(e)
		}
	}()
	switch c.Mode {
	case "diff":
		d := bigslice.FuncLocationsDiff(c.LHS, c.RHS)
		if d == nil {
			d = []string{}
		}
		// each line of the unified diff split into its marker and its text ("- x" / "+ x" / "x")
		lines := [][]string{}
		for _, l := range d {
			switch {
			case strings.HasPrefix(l, "- "):
				lines = append(lines, []string{"-", l[2:]})
			case strings.HasPrefix(l, "+ "):
				lines = append(lines, []string{"+", l[2:]})
			default:
				lines = append(lines, []string{"=", l})
			}
		}
		lhs, rhs := c.LHS, c.RHS
		if lhs == nil {
			lhs = []string{}
		}
		if rhs == nil {
			rhs = []string{}
		}
		rec["lhs"], rec["rhs"], rec["diff"] = lhs, rhs, lines
	case "locs":
		locs := bigslice.FuncLocations()
		want := []string{fmt.Sprintf("zz_c16_test.go:%d", c16FuncArgsLine), fmt.Sprintf("zz_c16_test.go:%d", c16FuncBaseLine)}
		found := []bool{false, false}
		for _, l := range locs {
			for i, w := range want {
				if strings.HasSuffix(l, w) {
					found[i] = true
				}
			}
		}
		seen := map[string]int{}
		dup := 0
		for _, l := range locs {
			if strings.Contains(l, "zz_c16_test.go") {
				seen[l]++
				if seen[l] > 1 {
					dup++
				}
			}
		}
		rec["found"], rec["dups"], rec["nlocs"] = found, dup, len(locs)
	case "args":
		args := c16ArgLists()[c.Pick]
		inv := makeExecInvocation(c16FuncArgs.Invocation("loc", args...))
		var b bytes.Buffer
		if err := gob.NewEncoder(&b).Encode(inv); err != nil {
			rec["encerr"] = err.Error()
			break
		}
		var got execInvocation
		if err := gob.NewDecoder(&b).Decode(&got); err != nil {
			rec["decerr"] = err.Error()
			break
		}
		orig, dec := []string{}, []string{}
		ks0, vs0 := c16Rows(args[0].(int), args[1].(string), args[2].([]int), args[3].(map[string]int), args[4].(c16Struct), args[5], c16asIface(args[6]))
		ks1, vs1 := c16Rows(got.Args[0].(int), got.Args[1].(string), got.Args[2].([]int), got.Args[3].(map[string]int), got.Args[4].(c16Struct), got.Args[5], c16asIface(got.Args[6]))
		for i := range ks0 {
			orig = append(orig, fmt.Sprint(ks0[i], "|", vs0[i]))
		}
		for i := range ks1 {
			dec = append(dec, fmt.Sprint(ks1[i], "|", vs1[i]))
		}
		rec["orig"], rec["dec"] = orig, dec
		rec["meta_same"] = got.Index == inv.Index && got.Func == inv.Func && got.Location == inv.Location && got.Exclusive == inv.Exclusive
	case "e2e":
		ctx, cancel := context.WithTimeout(context.Background(), 60*time.Second)
		defer cancel()
		outs := map[string]interface{}{}
		for _, ex := range []string{"local", c.Exec} {
			sess := c16Session(ex)
			var (
				rows [][]string
				es   string
			)
			t0 := time.Now()
			switch c.Pick {
			case 100: // nested results, diamond with unequal depths, exclusive join
				base, err := sess.Run(ctx, c16FuncBase, 4)
				if err != nil {
					es = err.Error()
					break
				}
				i1, err := sess.Run(ctx, c16FuncInc, base)
				if err == nil {
					var i2, j *Result
					i2, err = sess.Run(ctx, c16FuncInc, i1)
					if err == nil {
						j, err = sess.Run(ctx, c16FuncJoinX, base, i2)
						if err == nil {
							rows, es = c16Scan(j)
						}
					}
				}
				if err != nil {
					es = err.Error()
				}
			case 101: // *Result parameter
				base, err := sess.Run(ctx, c16FuncBase, 3)
				if err == nil {
					var r2 *Result
					r2, err = sess.Run(ctx, c16FuncRes, base, 10)
					if err == nil {
						rows, es = c16Scan(r2)
					}
				}
				if err != nil {
					es = err.Error()
				}
			case 102: // unencodable argument behind an interface parameter
				args := append([]interface{}{}, c16ArgLists()[0]...)
				args[5] = func() {}
				_, err := sess.Run(ctx, c16FuncArgs, args...)
				if err != nil {
					es = err.Error()
				}
			default:
				res, err := sess.Run(ctx, c16FuncArgs, c16ArgLists()[c.Pick]...)
				if err != nil {
					es = err.Error()
				} else {
					rows, es = c16Scan(res)
				}
			}
			if rows == nil {
				rows = [][]string{}
			}
			if len(es) > 300 {
				es = es[:300]
			}
			outs[ex+"_rows"], outs[ex+"_err"], outs[ex+"_ms"] = rows, es, int(time.Since(t0)/time.Millisecond)
			outs[ex+"_ctxexpired"] = ctx.Err() != nil
			if es == "" {
				go sess.Shutdown()
			}
			// (a session whose run failed is left alone: machines that come up after Shutdown make the executor
			// use its closed invocation cache, which panics the whole process -- "call after close")
		}
		rec["local_rows"], rec["local_err"] = outs["local_rows"], outs["local_err"]
		rec["rows"], rec["err"], rec["ms"], rec["ctxexpired"] = outs[c.Exec+"_rows"], outs[c.Exec+"_err"], outs[c.Exec+"_ms"], outs[c.Exec+"_ctxexpired"]
	}
	return
}

func c16asIface(v interface{}) c16Iface {
	if v == nil {
		return nil
	}
	return v.(c16Iface)
}

func TestVerifC16(t *testing.T) {
	path := os.Getenv("VERIF_CASES")
	if path == "" {
		t.Skip("no cases")
	}
	var cases []*c16Case
	vtr.ReadJSON(path, &cases)
	w := vtr.Create("c16_records.ndjson")
	defer w.Close()
	for _, c := range cases {
		w.Put(c16Run(c))
	}
}
