package slicecache

// C13 harness part 2 (work copy only): the cache writer (writethroughReader) at unit level over the
// fault-injecting vfault:// file layer: scripted upstream (chunking, rows-with-EOF, upstream error),
// early abandonment, failures at every file operation, rows large enough for the compressor to flush in
// mid-stream. After each session the shard file is decoded the way a later run would. specs/CacheFile.tla
// is the judge.

import (
	"context"
	"errors"
	"fmt"
	"io/ioutil"
	"os"
	"reflect"
	"strings"
	"testing"

	"github.com/grailbio/bigslice/frame"
	"github.com/grailbio/bigslice/internal/vfault"
	"github.com/grailbio/bigslice/internal/vtr"
	"github.com/grailbio/bigslice/sliceio"
	"github.com/grailbio/bigslice/slicetype"
)

type c13Case struct {
	ID      int             `json:"id"`
	N       int             `json:"n"`      // rows in the shard
	StrLen  int             `json:"strlen"` // payload bytes per row
	Chunks  []int           `json:"chunks"`
	EOFLast bool            `json:"eoflast"`
	Reads   []int           `json:"reads"`
	Faults  [][]interface{} `json:"faults"`
	ErrAt   int             `json:"errat"`   // upstream read ordinal that fails (0 = none)
	Abandon int             `json:"abandon"` // stop after this many Read calls (0 = read to the end)
	Pre     bool            `json:"pre"`     // a complete file from an earlier run already exists
}

var c13typ = slicetype.New(reflect.TypeOf(int(0)), reflect.TypeOf(""))

type c13Up struct {
	c     *c13Case
	pos   int
	ci    int
	calls int
}

var errC13Up = errors.New("upstream-failure")

func c13Payload(i, l int) string {
	if l <= 0 {
		return ""
	}
	// incompressible-ish deterministic payload
	b := make([]byte, l)
	x := uint32(i*2654435761 + 12345)
	for j := range b {
		x = x*1664525 + 1013904223
		b[j] = byte('a' + (x>>24)%26)
	}
	return string(b)
}

func (u *c13Up) Read(ctx context.Context, out frame.Frame) (int, error) {
	u.calls++
	if u.c.ErrAt > 0 && u.calls >= u.c.ErrAt {
		return 0, errC13Up
	}
	if u.pos == u.c.N {
		return 0, sliceio.EOF
	}
	k := out.Len()
	if len(u.c.Chunks) > 0 {
		k = u.c.Chunks[u.ci%len(u.c.Chunks)]
		u.ci++
	}
	if k > out.Len() {
		k = out.Len()
	}
	if k > u.c.N-u.pos {
		k = u.c.N - u.pos
	}
	for i := 0; i < k; i++ {
		out.Index(0, i).SetInt(int64(u.pos + i))
		out.Index(1, i).SetString(c13Payload(u.pos+i, u.c.StrLen))
	}
	u.pos += k
	if u.pos == u.c.N && u.c.EOFLast && k > 0 {
		return k, sliceio.EOF
	}
	return k, nil
}

func c13FileState(path string, strlen int) vtr.Rec {
	if _, err := os.Stat(vfault.Local(path)); err != nil {
		return vtr.Rec{"state": "absent", "nrows": 0, "good": true}
	}
	r := newFileReader(path)
	ctx := context.Background()
	n, good := 0, true
	for {
		f := frame.Make(c13typ, 64, 64)
		m, err := r.Read(ctx, f)
		for i := 0; i < m; i++ {
			if int(f.Index(0, i).Int()) != n+i || f.Index(1, i).String() != c13Payload(n+i, strlen) {
				good = false
			}
		}
		n += m
		if err == sliceio.EOF {
			return vtr.Rec{"state": "ok", "nrows": n, "good": good}
		}
		if err != nil {
			return vtr.Rec{"state": "corrupt", "nrows": n, "good": good, "why": err.Error()}
		}
	}
}

func c13Run(c *c13Case, root string) (rec vtr.Rec) {
	rec = vtr.Rec{"id": c.ID, "n": c.N, "strlen": c.StrLen, "errat": c.ErrAt, "abandon": c.Abandon, "pre": c.Pre, "nfaults": len(c.Faults)}
	reads := []vtr.Rec{}
	defer func() {
		if e := recover(); e != nil {
			rec["panic"] = fmt.Sprint(e)
		}
		rec["reads"] = reads
	}()
	ctx := context.Background()
	path := fmt.Sprintf("vfault://c13/s%d-0000-of-0001", c.ID)
	vfault.ClearPlans()
	if c.Pre {
		// an earlier complete run
		pc := *c
		pc.ErrAt, pc.Abandon = 0, 0
		w := newWritethroughReader(&c13Up{c: &pc}, path)
		for {
			f := frame.Make(c13typ, 32, 32)
			if _, err := w.Read(ctx, f); err != nil {
				break
			}
		}
		rec["prefile"] = c13FileState(path, c.StrLen)
		vfault.ClearPlans()
	}
	for _, f := range c.Faults {
		vfault.Fail(f[0].(string), int(f[1].(float64)))
	}
	w := newWritethroughReader(&c13Up{c: c}, path)
	delivered := 0
	for i := 0; i < 100000; i++ {
		if c.Abandon > 0 && i >= c.Abandon {
			break
		}
		k := c.Reads[i%len(c.Reads)]
		f := frame.Make(c13typ, k, k)
		n, err := w.Read(ctx, f)
		es := ""
		switch {
		case err == nil:
		case err == sliceio.EOF:
			es = "EOF"
		case err == errC13Up:
			es = "upstream"
		case strings.Contains(err.Error(), "vfault: injected"):
			es = "fault"
		default:
			es = "other:" + err.Error()
		}
		ok := true
		for j := 0; j < n && j < k; j++ {
			if int(f.Index(0, j).Int()) != delivered+j {
				ok = false
			}
		}
		reads = append(reads, vtr.Rec{"k": k, "n": n, "err": es, "rowsok": ok})
		if n > 0 {
			delivered += n
		}
		if err != nil {
			break
		}
	}
	vfault.ClearPlans()
	rec["file"] = c13FileState(path, c.StrLen)
	return
}

func TestVerifC13(t *testing.T) {
	path := os.Getenv("VERIF_CASES")
	if path == "" {
		t.Skip("no cases")
	}
	var cases []*c13Case
	vtr.ReadJSON(path, &cases)
	root, _ := ioutil.TempDir(vtr.OutDir(), "vfault")
	vfault.Reset(root)
	w := vtr.Create("c13_records.ndjson")
	defer w.Close()
	for _, c := range cases {
		w.Put(c13Run(c, root))
	}
}
