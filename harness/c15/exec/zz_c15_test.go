package exec

// C15 harness (work copy only). (1) Operation sequences on the two task stores (memoryStore, fileStore over
// the fault-injecting vfault:// file implementation), recording every return value and every byte read.
// (2) retryReader sessions over a scripted openerAt with transient failures. specs/Store.tla and
// specs/RetryRead.tla are the models and judges.

import (
	"context"
	"errors"
	"fmt"
	"io"
	"io/ioutil"
	"os"
	"strings"
	"testing"
	"time"

	baseerrors "github.com/grailbio/base/errors"
	"github.com/grailbio/base/retry"
	"github.com/grailbio/bigslice/internal/vfault"
	"github.com/grailbio/bigslice/internal/vtr"
)

type c15Case struct {
	ID     int             `json:"id"`
	Mode   string          `json:"mode"` // store | retry
	Impl   string          `json:"impl"` // file | memory
	Ops    [][]interface{} `json:"ops"`
	Faults [][]interface{} `json:"faults"` // [kind, at]
	// retry mode
	Stream int             `json:"stream"`
	Plan   [][]interface{} `json:"plan"`
	RSizes []int           `json:"rsizes"`
	Budget int             `json:"budget"`
}

func c15n(x interface{}) int { return int(x.(float64)) }

func c15Err(err error) string {
	switch {
	case err == nil:
		return ""
	case strings.Contains(err.Error(), "vfault: injected"):
		return "fault"
	case baseerrors.Is(baseerrors.NotExist, err) || os.IsNotExist(err) || strings.Contains(err.Error(), "no such file"):
		return "notexist"
	case baseerrors.Is(baseerrors.Exists, err):
		return "exists"
	}
	return "other:" + err.Error()
}

func c15Byte(w, j int) byte { return byte((w*37 + j*7 + 11) % 251) }

func c15Store(c *c15Case) (rec vtr.Rec) {
	rec = vtr.Rec{"id": c.ID, "mode": "store", "impl": c.Impl, "nfaults": len(c.Faults)}
	steps := []vtr.Rec{}
	defer func() {
		if e := recover(); e != nil {
			rec["panic"] = fmt.Sprint(e)
		}
		rec["steps"] = steps
	}()
	ctx := context.Background()
	var store Store
	dir, _ := ioutil.TempDir("", "verifc15")
	defer os.RemoveAll(dir)
	if c.Impl == "file" {
		vfault.Reset(dir)
		for _, f := range c.Faults {
			vfault.Fail(f[0].(string), c15n(f[1]))
		}
		store = &fileStore{Prefix: "vfault://store"}
	} else {
		store = newMemoryStore()
	}
	type wr struct {
		wc     writeCommitter
		n      int
		broken bool
	}
	var writers []*wr
	name := func(k int) TaskName { return TaskName{Op: fmt.Sprintf("t%d", k), Shard: 0, NumShard: 1} }
	for _, op := range c.Ops {
		st := vtr.Rec{"op": op}
		switch op[0].(string) {
		case "create":
			wc, err := store.Create(ctx, name(c15n(op[1])), 0)
			st["err"] = c15Err(err)
			if err != nil {
				writers = append(writers, nil)
			} else {
				writers = append(writers, &wr{wc: wc})
			}
		case "write":
			w := c15n(op[1])
			if w >= len(writers) || writers[w] == nil || writers[w].broken {
				st["skipped"] = true
				break
			}
			n := c15n(op[2])
			buf := make([]byte, n)
			for j := range buf {
				buf[j] = c15Byte(w, writers[w].n+j)
			}
			m, err := writers[w].wc.Write(buf)
			st["err"] = c15Err(err)
			st["n"] = m
			writers[w].n += m
			if err != nil {
				writers[w].broken = true
			}
		case "commit":
			w := c15n(op[1])
			if w >= len(writers) || writers[w] == nil || writers[w].broken {
				st["skipped"] = true
				break
			}
			err := writers[w].wc.Commit(ctx, int64(c15n(op[2])))
			st["err"] = c15Err(err)
			writers[w].broken = true // done
		case "wdiscard":
			w := c15n(op[1])
			if w >= len(writers) || writers[w] == nil {
				st["skipped"] = true
				break
			}
			writers[w].wc.Discard(ctx)
			writers[w].broken = true
		case "open":
			rc, err := store.Open(ctx, name(c15n(op[1])), 0, int64(c15n(op[2])))
			st["err"] = c15Err(err)
			data := []int{}
			if err == nil {
				buf := make([]byte, c15n(op[3]))
				for i := 0; i < 10000; i++ {
					n, rerr := rc.Read(buf)
					for _, b := range buf[:n] {
						data = append(data, int(b))
					}
					if rerr == io.EOF {
						break
					}
					if rerr != nil {
						st["rerr"] = c15Err(rerr)
						break
					}
				}
				if cerr := rc.Close(); cerr != nil && st["rerr"] == nil {
					st["cerr"] = c15Err(cerr)
				}
			}
			st["data"] = data
		case "stat":
			info, err := store.Stat(ctx, name(c15n(op[1])), 0)
			st["err"] = c15Err(err)
			st["size"] = info.Size
			st["records"] = info.Records
		case "discard":
			err := store.Discard(ctx, name(c15n(op[1])), 0)
			st["err"] = c15Err(err)
		}
		steps = append(steps, st)
	}
	if c.Impl == "file" {
		rec["fileops"] = vfault.Counts()[""]
	}
	return
}

// scripted openerAt
type c15Opener struct {
	stream []byte
	plan   [][]interface{}
	pi     int
	opens  []vtr.Rec
}

var errC15Transient = errors.New("transient-failure")

func (o *c15Opener) next() []interface{} {
	if o.pi < len(o.plan) {
		p := o.plan[o.pi]
		o.pi++
		return p
	}
	return nil
}

func (o *c15Opener) OpenAt(ctx context.Context, offset int64) (io.ReadCloser, error) {
	if p := o.peek(); p != nil && p[0].(string) == "openfail" {
		o.pi++
		o.opens = append(o.opens, vtr.Rec{"off": offset, "ok": false})
		return nil, errC15Transient
	}
	o.opens = append(o.opens, vtr.Rec{"off": offset, "ok": true})
	if offset > int64(len(o.stream)) {
		offset = int64(len(o.stream))
	}
	return &c15Conn{o: o, pos: int(offset)}, nil
}

func (o *c15Opener) peek() []interface{} {
	if o.pi < len(o.plan) {
		return o.plan[o.pi]
	}
	return nil
}

type c15Conn struct {
	o      *c15Opener
	pos    int
	closed bool
}

func (c *c15Conn) Read(p []byte) (int, error) {
	o := c.o
	k, fail := len(p), false
	if pl := o.peek(); pl != nil && pl[0].(string) != "openfail" {
		o.pi++
		k = c15n(pl[1])
		fail = pl[0].(string) == "readerr"
	}
	if k > len(p) {
		k = len(p)
	}
	if k > len(o.stream)-c.pos {
		k = len(o.stream) - c.pos
	}
	copy(p, o.stream[c.pos:c.pos+k])
	c.pos += k
	if fail {
		return k, errC15Transient
	}
	if c.pos == len(o.stream) && k == 0 {
		return 0, io.EOF
	}
	return k, nil
}

func (c *c15Conn) Close() error { c.closed = true; return nil }

func c15Retry(c *c15Case) (rec vtr.Rec) {
	rec = vtr.Rec{"id": c.ID, "mode": "retry", "stream": c.Stream, "budget": c.Budget, "plan": c.Plan}
	steps := []vtr.Rec{}
	defer func() {
		if e := recover(); e != nil {
			rec["panic"] = fmt.Sprint(e)
		}
		rec["steps"] = steps
	}()
	old := retryPolicy
	retryPolicy = retry.MaxRetries(retry.Backoff(time.Microsecond, 10*time.Microsecond, 2), c.Budget)
	defer func() { retryPolicy = old }()
	stream := make([]byte, c.Stream)
	for j := range stream {
		stream[j] = c15Byte(3, j)
	}
	o := &c15Opener{stream: stream, plan: c.Plan}
	r := newRetryReader(context.Background(), o)
	after := 0
	for i := 0; i < 500; i++ {
		k := c.RSizes[i%len(c.RSizes)]
		buf := make([]byte, k)
		for j := range buf {
			buf[j] = 0xEE
		}
		n, err := r.Read(buf)
		es := ""
		if err == io.EOF {
			es = "EOF"
		} else if err != nil {
			es = "fail"
		}
		data := []int{}
		if n >= 0 && n <= k {
			for _, b := range buf[:n] {
				data = append(data, int(b))
			}
		}
		steps = append(steps, vtr.Rec{"k": k, "n": n, "err": es, "data": data, "opens": len(o.opens)})
		if err != nil {
			after++
			if after >= 2 {
				break
			}
		}
	}
	_ = r.Close()
	rec["opens"] = o.opens
	want := []int{}
	for _, b := range stream {
		want = append(want, int(b))
	}
	rec["bytes"] = want
	return
}

func TestVerifC15(t *testing.T) {
	path := os.Getenv("VERIF_CASES")
	if path == "" {
		t.Skip("no cases")
	}
	var cases []*c15Case
	vtr.ReadJSON(path, &cases)
	ws := vtr.Create("c15_store.ndjson")
	wr := vtr.Create("c15_retry.ndjson")
	defer ws.Close()
	defer wr.Close()
	for _, c := range cases {
		if c.Mode == "store" {
			ws.Put(c15Store(c))
		} else {
			wr.Put(c15Retry(c))
		}
	}
}
