// Package vfault is a fault-injecting file.Implementation for the verification harnesses (work copy
// only). Paths vfault://x/y map onto <root>/x/y of the local file system; every underlying operation
// (create, open, stat, remove, write, close, read, seek, discard, fstat) is counted and the k-th
// operation of a kind (or the k-th operation overall) can be made to fail.
package vfault

import (
	"context"
	"errors"
	"io"
	"strings"
	"sync"
	"time"

	"github.com/grailbio/base/file"
)

// ErrInjected is the injected failure.
var ErrInjected = errors.New("vfault: injected failure")

type plan struct {
	kind  string // "" = any
	at    int    // 1-based ordinal among operations of that kind (or overall)
	short int    // for write: number of bytes accepted before failing
	fired bool
}

var (
	mu     sync.Mutex
	root   string
	counts = map[string]int{}
	total  int
	plans  []*plan
	log    []string
)

// Reset sets the root directory and clears counters and plans.
func Reset(dir string) {
	mu.Lock()
	defer mu.Unlock()
	root = dir
	counts = map[string]int{}
	total = 0
	plans = nil
	log = nil
}

// Fail makes the at-th operation of the given kind ("" = any kind) fail once.
func Fail(kind string, at int) {
	mu.Lock()
	defer mu.Unlock()
	plans = append(plans, &plan{kind: kind, at: at})
}

// ClearPlans removes all fault plans (counters keep running).
func ClearPlans() {
	mu.Lock()
	defer mu.Unlock()
	plans = nil
	counts = map[string]int{}
	total = 0
}

// Local maps a vfault:// path onto the local file system.
func Local(path string) string { return local(path) }

// Counts returns the number of operations seen per kind, and overall under "".
func Counts() map[string]int {
	mu.Lock()
	defer mu.Unlock()
	m := map[string]int{"": total}
	for k, v := range counts {
		m[k] = v
	}
	return m
}

// Log returns the operations seen so far ("kind path").
func Log() []string {
	mu.Lock()
	defer mu.Unlock()
	return append([]string{}, log...)
}

func hit(kind, path string) error {
	mu.Lock()
	defer mu.Unlock()
	counts[kind]++
	total++
	log = append(log, kind+" "+path)
	for _, p := range plans {
		if p.fired {
			continue
		}
		if (p.kind == kind && counts[kind] == p.at) || (p.kind == "" && total == p.at) {
			p.fired = true
			return ErrInjected
		}
	}
	return nil
}

func local(path string) string {
	p := strings.TrimPrefix(path, "vfault://")
	p = strings.TrimPrefix(p, "/")
	mu.Lock()
	defer mu.Unlock()
	return root + "/" + p
}

type impl struct{ base file.Implementation }

func init() {
	file.RegisterImplementation("vfault", func() file.Implementation {
		return &impl{base: file.NewLocalImplementation()}
	})
}

func (i *impl) String() string { return "vfault" }

func (i *impl) Open(ctx context.Context, path string, opts ...file.Opts) (file.File, error) {
	if err := hit("open", path); err != nil {
		return nil, err
	}
	f, err := i.base.Open(ctx, local(path), opts...)
	if err != nil {
		return nil, err
	}
	return &ffile{File: f, path: path}, nil
}

func (i *impl) Create(ctx context.Context, path string, opts ...file.Opts) (file.File, error) {
	if err := hit("create", path); err != nil {
		return nil, err
	}
	f, err := i.base.Create(ctx, local(path), opts...)
	if err != nil {
		return nil, err
	}
	return &ffile{File: f, path: path}, nil
}

func (i *impl) List(ctx context.Context, path string, recursive bool) file.Lister {
	return i.base.List(ctx, local(path), recursive)
}

func (i *impl) Stat(ctx context.Context, path string, opts ...file.Opts) (file.Info, error) {
	if err := hit("stat", path); err != nil {
		return nil, err
	}
	return i.base.Stat(ctx, local(path), opts...)
}

func (i *impl) Remove(ctx context.Context, path string) error {
	if err := hit("remove", path); err != nil {
		return err
	}
	return i.base.Remove(ctx, local(path))
}

func (i *impl) Presign(ctx context.Context, path, method string, expiry time.Duration) (string, error) {
	return "", errors.New("vfault: presign not supported")
}

type ffile struct {
	file.File
	path string
}

func (f *ffile) Name() string   { return f.path }
func (f *ffile) String() string { return f.path }

func (f *ffile) Stat(ctx context.Context) (file.Info, error) {
	if err := hit("fstat", f.path); err != nil {
		return nil, err
	}
	return f.File.Stat(ctx)
}

func (f *ffile) Reader(ctx context.Context) io.ReadSeeker {
	return &freader{rs: f.File.Reader(ctx), path: f.path}
}

func (f *ffile) Writer(ctx context.Context) io.Writer {
	return &fwriter{w: f.File.Writer(ctx), path: f.path}
}

func (f *ffile) Discard(ctx context.Context) {
	_ = hit("discard", f.path)
	f.File.Discard(ctx)
}

func (f *ffile) Close(ctx context.Context) error {
	if err := hit("close", f.path); err != nil {
		// a failed close must not publish the file
		f.File.Discard(ctx)
		return err
	}
	return f.File.Close(ctx)
}

// CloseNoSync mirrors the optional method of local files used by bigslice's store.
func (f *ffile) CloseNoSync(ctx context.Context) error {
	if err := hit("close", f.path); err != nil {
		f.File.Discard(ctx)
		return err
	}
	if c, ok := f.File.(interface {
		CloseNoSync(context.Context) error
	}); ok {
		return c.CloseNoSync(ctx)
	}
	return f.File.Close(ctx)
}

type freader struct {
	rs   io.ReadSeeker
	path string
}

func (r *freader) Read(p []byte) (int, error) {
	if err := hit("read", r.path); err != nil {
		return 0, err
	}
	return r.rs.Read(p)
}

func (r *freader) Seek(off int64, whence int) (int64, error) {
	if err := hit("seek", r.path); err != nil {
		return 0, err
	}
	return r.rs.Seek(off, whence)
}

type fwriter struct {
	w    io.Writer
	path string
}

func (w *fwriter) Write(p []byte) (int, error) {
	if err := hit("write", w.path); err != nil {
		return 0, err
	}
	return w.w.Write(p)
}
