// Package vtr is the trace recorder shared by the verification harnesses that are injected into
// a scratch work copy of bigslice (never into /repo). Events are NDJSON lines ordered by a
// sequence number taken under the recorder's mutex at emission time.
package vtr

import (
	"bufio"
	"encoding/json"
	"fmt"
	"os"
	"path/filepath"
	"strconv"
	"sync"
)

// Rec is one trace/record line.
type Rec map[string]interface{}

// W writes NDJSON records.
type W struct {
	mu  sync.Mutex
	f   *os.File
	bw  *bufio.Writer
	seq int
	N   int
}

// OutDir returns the directory the check wants output in.
func OutDir() string {
	d := os.Getenv("VERIF_OUT")
	if d == "" {
		d = os.TempDir()
	}
	return d
}

// Seed returns VERIF_SEED (default 1).
func Seed() int64 {
	n, err := strconv.ParseInt(os.Getenv("VERIF_SEED"), 10, 64)
	if err != nil {
		return 1
	}
	return n
}

// EnvInt returns an integer environment variable or def.
func EnvInt(name string, def int) int {
	n, err := strconv.Atoi(os.Getenv(name))
	if err != nil {
		return def
	}
	return n
}

// Create opens name under OutDir for writing.
func Create(name string) *W {
	f, err := os.Create(filepath.Join(OutDir(), name))
	if err != nil {
		panic(err)
	}
	return &W{f: f, bw: bufio.NewWriterSize(f, 1<<20)}
}

// Emit writes one record, adding "seq".
func (w *W) Emit(r Rec) {
	w.mu.Lock()
	defer w.mu.Unlock()
	w.seq++
	r["seq"] = w.seq
	w.put(r)
}

// Put writes one record as is.
func (w *W) Put(r Rec) {
	w.mu.Lock()
	defer w.mu.Unlock()
	w.put(r)
}

func (w *W) put(r Rec) {
	b, err := json.Marshal(r)
	if err != nil {
		panic(fmt.Sprintf("vtr: %v: %v", err, r))
	}
	w.bw.Write(b)
	w.bw.WriteByte('\n')
	w.N++
}

// Close flushes and closes.
func (w *W) Close() {
	w.mu.Lock()
	defer w.mu.Unlock()
	w.bw.Flush()
	w.f.Close()
}

// ReadJSON reads a JSON file into v.
func ReadJSON(path string, v interface{}) {
	b, err := os.ReadFile(path)
	if err != nil {
		panic(err)
	}
	if err := json.Unmarshal(b, v); err != nil {
		panic(fmt.Sprintf("%s: %v", path, err))
	}
}
