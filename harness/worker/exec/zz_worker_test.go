package exec

// Worker harness (work copy only): drives the real (*worker).Run / (*worker).Discard of one task with several
// concurrent requests, context cancellations and a user function whose executions the script holds and releases,
// and records the order of events. specs/WorkerMon.tla judges (OneExecution, ReplyOk, ...); specs/Worker.tla is
// the design model of the same code.

import (
	"bytes"
	"context"
	"encoding/gob"
	"fmt"
	"os"
	"sync"
	"testing"
	"time"

	"github.com/grailbio/bigmachine"
	"github.com/grailbio/bigmachine/testsystem"
	"github.com/grailbio/bigslice"
	"github.com/grailbio/bigslice/internal/vtr"
	"github.com/grailbio/bigslice/sliceio"
)

type wkCase struct {
	ID  int             `json:"id"`
	Ops [][]interface{} `json:"ops"` // ["start", r] ["cancel", r] ["release", "ok"|"fail"] ["discard"] ["settle"]
}

type wkRun struct {
	mu      sync.Mutex
	evs     []vtr.Rec
	nenter  int
	gates   []chan string
	entered chan int
}

var (
	wkMu   sync.Mutex
	wkRuns = map[int]*wkRun{}
)

func (r *wkRun) emit(ev vtr.Rec) {
	r.mu.Lock()
	ev["seq"] = len(r.evs) + 1
	r.evs = append(r.evs, ev)
	r.mu.Unlock()
}

var wkFunc = bigslice.Func(func(id int) bigslice.Slice {
	return bigslice.ReaderFunc(1, func(shard int, st *int, ks, vs []int) (int, error) {
		wkMu.Lock()
		r := wkRuns[id]
		wkMu.Unlock()
		if *st > 0 {
			return 0, sliceio.EOF
		}
		*st = 1
		r.mu.Lock()
		r.nenter++
		k := r.nenter
		g := make(chan string, 1)
		r.gates = append(r.gates, g)
		r.mu.Unlock()
		r.emit(vtr.Rec{"ev": "enter", "k": k})
		r.entered <- k
		out := <-g
		r.emit(vtr.Rec{"ev": "exit", "k": k, "outcome": out})
		if out == "fail" {
			return 0, fmt.Errorf("worker harness: execution %d told to fail", k)
		}
		ks[0], vs[0] = 1, k
		return 1, nil
	})
})

var wkInvSeq uint64 = 1 << 40

func wkRunCase(c *wkCase) (rec vtr.Rec) {
	rec = vtr.Rec{"id": c.ID}
	r := &wkRun{entered: make(chan int, 64)}
	wkMu.Lock()
	wkRuns[c.ID] = r
	wkInvSeq++
	idx := wkInvSeq
	wkMu.Unlock()
	defer func() {
		if e := recover(); e != nil {
			rec["panic"] = fmt.Sprint(e)
		}
		r.mu.Lock()
		rec["events"] = append([]vtr.Rec{}, r.evs...)
		r.mu.Unlock()
	}()
	sys := testsystem.New()
	b := bigmachine.Start(sys)
	defer b.Shutdown()
	w := &worker{}
	if err := w.Init(b); err != nil {
		panic(err)
	}
	inv := makeExecInvocation(wkFunc.Invocation("worker", c.ID))
	inv.Index = idx
	var buf bytes.Buffer
	if err := gob.NewEncoder(&buf).Encode(inv); err != nil {
		panic(err)
	}
	if err := w.Compile(context.Background(), &buf, nil); err != nil {
		panic(err)
	}
	var task *Task
	for _, t := range w.tasks[idx] {
		task = t
	}
	req := taskRunRequest{Name: task.Name, Invocation: idx}
	type call struct {
		cancel func()
		done   chan struct{}
	}
	calls := map[int]*call{}
	returned := func(q int) bool {
		select {
		case <-calls[q].done:
			return true
		default:
			return false
		}
	}
	// settle waits until nothing moves: every started call has either returned, is executing (held at its gate)
	// or has been waiting for a while
	settle := func() {
		last, lastChange := -1, time.Now()
		for time.Since(lastChange) < 150*time.Millisecond {
			r.mu.Lock()
			n := len(r.evs)
			r.mu.Unlock()
			if n != last {
				last, lastChange = n, time.Now()
			}
			time.Sleep(5 * time.Millisecond)
		}
	}
	held := func() int { // an execution that entered and has not been released
		r.mu.Lock()
		defer r.mu.Unlock()
		for k, g := range r.gates {
			if g != nil {
				return k
			}
		}
		return -1
	}
	for _, op := range c.Ops {
		switch op[0].(string) {
		case "start":
			q := int(op[1].(float64))
			if calls[q] != nil {
				continue
			}
			ctx, cancel := context.WithCancel(context.Background())
			cl := &call{cancel: cancel, done: make(chan struct{})}
			calls[q] = cl
			r.emit(vtr.Rec{"ev": "start", "r": q})
			go func() {
				var reply taskRunReply
				err := w.Run(ctx, req, &reply)
				es := ""
				if err != nil {
					es = err.Error()
				}
				r.emit(vtr.Rec{"ev": "return", "r": q, "err": es, "cancelled": ctx.Err() != nil})
				close(cl.done)
			}()
			settle()
		case "cancel":
			q := int(op[1].(float64))
			if calls[q] == nil || returned(q) {
				continue
			}
			r.emit(vtr.Rec{"ev": "cancel", "r": q})
			calls[q].cancel()
			settle()
		case "release":
			k := held()
			if k < 0 {
				continue
			}
			r.mu.Lock()
			g := r.gates[k]
			r.gates[k] = nil
			r.mu.Unlock()
			g <- op[1].(string)
			settle()
		case "discard":
			r.emit(vtr.Rec{"ev": "discard"})
			w.Discard(context.Background(), task.Name, nil)
			r.emit(vtr.Rec{"ev": "discarded"})
			settle()
		}
	}
	// let everything finish
	for i := 0; i < 64; i++ {
		k := held()
		if k < 0 {
			settle()
			if held() < 0 {
				break
			}
			continue
		}
		r.mu.Lock()
		g := r.gates[k]
		r.gates[k] = nil
		r.mu.Unlock()
		g <- "ok"
		settle()
	}
	for q, cl := range calls {
		select {
		case <-cl.done:
		case <-time.After(10 * time.Second):
			r.emit(vtr.Rec{"ev": "stuck", "r": q})
		}
	}
	task.Lock()
	rec["final"] = task.state.String()
	task.Unlock()
	return
}

func TestVerifWorker(t *testing.T) {
	path := os.Getenv("VERIF_CASES")
	if path == "" {
		t.Skip("no cases")
	}
	var cases []*wkCase
	vtr.ReadJSON(path, &cases)
	w := vtr.Create("worker_records.ndjson")
	defer w.Close()
	for _, c := range cases {
		w.Put(wkRunCase(c))
	}
}
