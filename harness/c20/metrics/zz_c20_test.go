package metrics_test

// C20 harness (work copy only): applies sequences of scope operations (Incr, concurrent Incr, Merge,
// Reset(u), Reset(nil), gob round trip) to real metrics.Scope values and records the value of every
// counter in every scope after each operation. specs/Metrics.tla is the model and the judge.

import (
	"bytes"
	"encoding/gob"
	"fmt"
	"os"
	"sync"
	"testing"

	"github.com/grailbio/bigslice/internal/vtr"
	"github.com/grailbio/bigslice/metrics"
)

var c20Counters = []metrics.Counter{metrics.NewCounter(), metrics.NewCounter(), metrics.NewCounter()}

type c20Case struct {
	ID      int             `json:"id"`
	NScope  int             `json:"nscope"`
	NCount  int             `json:"ncount"`
	Ops     [][]interface{} `json:"ops"`
}

func c20num(x interface{}) int { return int(x.(float64)) }

// c20Snap reads every counter of every scope WITHOUT touching the scope: Counter.Value instantiates a
// missing counter in the scope it reads, which would perturb the state under test (e.g. whether a merge
// target is still empty), so the values are read from a gob copy of the scope.
func c20Snap(scopes []*metrics.Scope, nc int) [][]int {
	out := make([][]int, len(scopes))
	for i, s := range scopes {
		out[i] = make([]int, nc)
		var b bytes.Buffer
		cp := new(metrics.Scope)
		if err := gob.NewEncoder(&b).Encode(s); err != nil {
			panic(err)
		}
		if err := gob.NewDecoder(&b).Decode(cp); err != nil {
			panic(err)
		}
		for c := 0; c < nc; c++ {
			out[i][c] = int(c20Counters[c].Value(cp))
		}
	}
	return out
}

func c20Run(c *c20Case) []vtr.Rec {
	scopes := make([]*metrics.Scope, c.NScope)
	for i := range scopes {
		scopes[i] = new(metrics.Scope)
	}
	var steps []vtr.Rec
	for i, op := range c.Ops {
		rec := vtr.Rec{"i": i + 1, "op": op}
		func() {
			defer func() {
				if e := recover(); e != nil {
					rec["panic"] = fmt.Sprint(e)
				}
			}()
			switch op[0].(string) {
			case "incr":
				c20Counters[c20num(op[2])].Incr(scopes[c20num(op[1])], int64(c20num(op[3])))
			case "parincr":
				s, cn, k, g := scopes[c20num(op[1])], c20Counters[c20num(op[2])], c20num(op[3]), c20num(op[4])
				var wg sync.WaitGroup
				for j := 0; j < g; j++ {
					wg.Add(1)
					go func() {
						defer wg.Done()
						for x := 0; x < k; x++ {
							cn.Incr(s, 1)
						}
					}()
				}
				wg.Wait()
			case "merge":
				scopes[c20num(op[1])].Merge(scopes[c20num(op[2])])
			case "reset":
				scopes[c20num(op[1])].Reset(scopes[c20num(op[2])])
			case "resetnil":
				scopes[c20num(op[1])].Reset(nil)
			case "gob":
				var b bytes.Buffer
				if err := gob.NewEncoder(&b).Encode(scopes[c20num(op[2])]); err != nil {
					rec["err"] = err.Error()
					return
				}
				d := new(metrics.Scope)
				if err := gob.NewDecoder(&b).Decode(d); err != nil {
					rec["err"] = err.Error()
					return
				}
				scopes[c20num(op[1])] = d
			case "fresh":
				scopes[c20num(op[1])] = new(metrics.Scope)
			}
		}()
		rec["vals"] = c20Snap(scopes, c.NCount)
		steps = append(steps, rec)
	}
	return steps
}

func TestVerifC20(t *testing.T) {
	path := os.Getenv("VERIF_CASES")
	if path == "" {
		t.Skip("no cases")
	}
	var cases []*c20Case
	vtr.ReadJSON(path, &cases)
	w := vtr.Create("c20_records.ndjson")
	defer w.Close()
	for _, c := range cases {
		w.Put(vtr.Rec{"id": c.ID, "nscope": c.NScope, "ncount": c.NCount, "steps": c20Run(c)})
	}
}
