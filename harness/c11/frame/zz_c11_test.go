package frame_test

// C11 harness (work copy only): applies operation sequences to views of real frames and records,
// after every operation, the view's rows, its capacity, the whole parent storage and the operation's
// result. specs/FrameView.tla is the slice-of-rows model and the judge.

import (
	"context"
	"encoding/hex"
	"fmt"
	"os"
	"reflect"
	"sort"
	"testing"

	"github.com/grailbio/bigslice/frame"
	"github.com/grailbio/bigslice/internal/vtr"
	"github.com/grailbio/bigslice/slicetype"
)

type c11Pair struct {
	A int
	B string
}

type c11Case struct {
	ID     int             `json:"id"`
	Types  string          `json:"types"` // one letter per column: i int, s string, p struct, b []byte, u uint8, f float64
	Prefix int             `json:"prefix"`
	Rows   [][]interface{} `json:"rows"` // parent storage
	Ops    [][]interface{} `json:"ops"`
}

func c11Type(ch byte) reflect.Type {
	switch ch {
	case 'i':
		return reflect.TypeOf(int(0))
	case 's':
		return reflect.TypeOf("")
	case 'p':
		return reflect.TypeOf(c11Pair{})
	case 'b':
		return reflect.TypeOf([]byte(nil))
	case 'u':
		return reflect.TypeOf(uint8(0))
	case 'f':
		return reflect.TypeOf(float64(0))
	}
	panic("type " + string(ch))
}

func c11Set(v reflect.Value, ch byte, x interface{}) {
	switch ch {
	case 'i':
		v.SetInt(int64(x.(float64)))
	case 'u':
		v.SetUint(uint64(x.(float64)))
	case 'f':
		v.SetFloat(x.(float64))
	case 's':
		v.SetString(x.(string))
	case 'b':
		b, _ := hex.DecodeString(x.(string))
		if len(b) == 0 {
			b = nil
		}
		v.SetBytes(b)
	case 'p':
		m := x.(map[string]interface{})
		v.Set(reflect.ValueOf(c11Pair{A: int(m["A"].(float64)), B: m["B"].(string)}))
	}
}

func c11Get(v reflect.Value, ch byte) interface{} {
	switch ch {
	case 'i':
		return int(v.Int())
	case 'u':
		return int(v.Uint())
	case 'f':
		return int(v.Float())
	case 's':
		return v.String()
	case 'b':
		return hex.EncodeToString(v.Bytes())
	case 'p':
		p := v.Interface().(c11Pair)
		return map[string]interface{}{"A": p.A, "B": p.B}
	}
	return nil
}

func c11Make(types string, rows [][]interface{}, prefix int) frame.Frame {
	ts := make([]reflect.Type, len(types))
	for i := range ts {
		ts[i] = c11Type(types[i])
	}
	f := frame.Make(slicetype.New(ts...), len(rows), len(rows))
	for r, row := range rows {
		for c := range ts {
			c11Set(f.Index(c, r), types[c], row[c])
		}
	}
	return f.Prefixed(prefix)
}

func c11Rows(f frame.Frame, types string, n int) [][]interface{} {
	out := make([][]interface{}, n)
	for r := 0; r < n; r++ {
		row := make([]interface{}, len(types))
		for c := range row {
			row[c] = c11Get(f.Index(c, r), types[c])
		}
		out[r] = row
	}
	return out
}

func toRows(x interface{}) [][]interface{} {
	var out [][]interface{}
	for _, r := range x.([]interface{}) {
		out = append(out, r.([]interface{}))
	}
	return out
}

func num(x interface{}) int { return int(x.(float64)) }

func c11Run(c *c11Case) []vtr.Rec {
	parent := c11Make(c.Types, c.Rows, c.Prefix)
	cur := parent
	var recs []vtr.Rec
	for i, op := range c.Ops {
		rec := vtr.Rec{"i": i + 1, "op": op}
		func() {
			defer func() {
				if e := recover(); e != nil {
					rec["panic"] = fmt.Sprint(e)
				}
			}()
			switch op[0].(string) {
			case "slice":
				cur = cur.Slice(num(op[1]), num(op[2]))
			case "copyin":
				src := c11Make(c.Types, toRows(op[1]), c.Prefix)
				rec["res"] = frame.Copy(cur, src)
			case "copyself":
				a, al, b, bl := num(op[1]), num(op[2]), num(op[3]), num(op[4])
				rec["res"] = frame.Copy(cur.Slice(a, a+al), cur.Slice(b, b+bl))
			case "copyout":
				k := num(op[1])
				dst := c11Make(c.Types, nil, c.Prefix)
				dst = frame.Make(cur, k, k)
				n := frame.Copy(dst, cur)
				rec["res"] = n
				rec["rows"] = c11Rows(dst, c.Types, k)
			case "swap":
				cur.Swap(num(op[1]), num(op[2]))
			case "zero":
				cur.Zero()
			case "less":
				i, j := num(op[1]), num(op[2])
				// the same two rows in an independent copy
				cp := frame.Make(cur, 2, 2)
				frame.Copy(cp.Slice(0, 1), cur.Slice(i, i+1))
				frame.Copy(cp.Slice(1, 2), cur.Slice(j, j+1))
				rec["res"] = cur.Less(i, j)
				rec["res_copy"] = cp.Less(0, 1)
			case "hash":
				i := num(op[1])
				cp := frame.Make(cur, 3, 3)
				frame.Copy(cp.Slice(2, 3), cur.Slice(i, i+1))
				rec["res"] = int(cur.Hash(i))
				rec["res_copy"] = int(cp.Hash(2))
			case "append":
				src := c11Make(c.Types, toRows(op[1]), c.Prefix)
				cur = frame.AppendFrame(cur, src)
			case "grow":
				cur = cur.Grow(num(op[1]))
			case "ensure":
				cur = cur.Ensure(num(op[1]))
			case "prefixed":
				cur = cur.Prefixed(num(op[1]))
			case "sort":
				sort.Sort(cur)
			default:
				panic("unknown op")
			}
		}()
		func() {
			defer func() {
				if e := recover(); e != nil {
					rec["obs_panic"] = fmt.Sprint(e)
					rec["view"] = [][]interface{}{}
				}
			}()
			rec["len"] = cur.Len()
			rec["cap"] = cur.Cap()
			rec["prefix"] = cur.Prefix()
			rec["view"] = c11Rows(cur, c.Types, cur.Len())
		}()
		rec["parent"] = c11Rows(parent, c.Types, len(c.Rows))
		recs = append(recs, rec)
		if rec["panic"] != nil || rec["obs_panic"] != nil {
			break
		}
	}
	return recs
}

func TestVerifC11(t *testing.T) {
	path := os.Getenv("VERIF_CASES")
	if path == "" {
		t.Skip("no cases")
	}
	var cases []*c11Case
	vtr.ReadJSON(path, &cases)
	w := vtr.Create("c11_records.ndjson")
	defer w.Close()
	for _, c := range cases {
		steps := c11Run(c)
		tl := make([]string, len(c.Types))
		for i := range tl {
			tl[i] = c.Types[i : i+1]
		}
		w.Put(vtr.Rec{"id": c.ID, "types": c.Types, "tl": tl, "prefix": c.Prefix, "rows": c.Rows, "steps": steps})
	}
	_ = context.Background
}
