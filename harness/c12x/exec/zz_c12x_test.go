package exec

// Executor-level harness for Exec.tla (work copy only). Real sessions on a bigmachine testsystem run a two-stage
// program (Map -> Reduce), optionally with
//   - a gate that holds a completed root task between task.Set(TaskOk) and m.Assign(task) (hook BmOkSet) while the
//     harness discards the result: the schedule of the TLC counterexample of Exec.tla (Variant "asfound"),
//   - a machine killed at a chosen executor event (BmCall / BmReply / BmSetLoc / BmOkSet of the n'th task),
//   - a Discard of the result before it is reused,
// followed by a second invocation that consumes the result. The executor's hook events (grant, call, reply, location,
// ok, assign, discard, machine lost) and task state changes are recorded; specs/ExecTrace.tla validates them against
// Exec.tla and judges the outcome clauses.

import (
	"context"
	"fmt"
	"net/http"
	"os"
	"sort"
	"strings"
	"sync"
	"testing"
	"time"

	baseerrors "github.com/grailbio/base/errors"
	"github.com/grailbio/base/retry"
	"github.com/grailbio/bigmachine"
	"github.com/grailbio/bigmachine/testsystem"
	"github.com/grailbio/bigslice"
	"github.com/grailbio/bigslice/internal/vtr"
)

type c12xCase struct {
	ID      int    `json:"id"`
	Kind    string `json:"kind"` // plain | window | kill
	NShard  int    `json:"nshard"`
	Gate    int    `json:"gate"`    // window: hold the (ntasks-Gate)'th BmOkSet
	KillEv  string `json:"killev"`  // kill: event name
	KillN   int    `json:"killn"`   // kill: ordinal of that event
	Discard bool   `json:"discard"` // discard the result before reusing it
	Procs   int    `json:"procs"`   // procs per machine
}

var c12xStage1 = bigslice.Func(func(nshard int) bigslice.Slice {
	n := 24 * nshard
	keys, vals := make([]int, n), make([]int, n)
	for i := range keys {
		keys[i], vals[i] = i%11, 1
	}
	s := bigslice.Const(nshard, keys, vals)
	s = bigslice.Map(s, func(k, v int) (int, int) { return k, v })
	return bigslice.Reduce(s, func(a, b int) int { return a + b })
})

// c12xStage1F: as c12xStage1, but the map function fails persistently (panics) on the rows of one key: a fatal user
// error in the map-side tasks that hold that key.
var c12xStage1F = bigslice.Func(func(nshard int) bigslice.Slice {
	n := 24 * nshard
	keys, vals := make([]int, n), make([]int, n)
	for i := range keys {
		keys[i], vals[i] = i%11, 1
	}
	s := bigslice.Const(nshard, keys, vals)
	s = bigslice.Map(s, func(k, v int) (int, int) {
		if k == 7 {
			panic("c12x: user code fails on key 7")
		}
		return k, v
	})
	return bigslice.Reduce(s, func(a, b int) int { return a + b })
})

var c12xStage2 = bigslice.Func(func(src bigslice.Slice) bigslice.Slice {
	return bigslice.Map(src, func(k, v int) (int, int) { return k, v + 1 })
})

// c12xDead keeps the address of a killed machine dead: the test system's machines listen on ephemeral ports, and a
// machine started later (the replacement, or a machine of the next session) can be given the port of the machine that
// was killed; a read that is still addressed to the dead machine would then reach a live stranger. Real machines do
// not share addresses.
type c12xDead struct {
	mu   sync.Mutex
	base http.RoundTripper
	dead map[string]bool
}

func (d *c12xDead) kill(addr string) {
	d.mu.Lock()
	d.dead[strings.TrimPrefix(strings.TrimPrefix(addr, "https://"), "http://")] = true
	d.mu.Unlock()
}

func (d *c12xDead) RoundTrip(req *http.Request) (*http.Response, error) {
	d.mu.Lock()
	dead := d.dead[req.URL.Host]
	d.mu.Unlock()
	if dead {
		return nil, fmt.Errorf("c12x: connection to %s refused (machine is dead)", req.URL.Host)
	}
	return d.base.RoundTrip(req)
}

type c12xRec struct {
	mu     sync.Mutex
	seq    int
	evs    []vtr.Rec
	tasks  map[*Task]string
	driver map[*Task]bool // tasks of the driver's graphs (workers compile their own Task values with the same names)
	machs  map[*sliceMachine]int
	mlist  []*sliceMachine
	graph  map[string]bool
	count  map[string]int
	okset  int
	gateAt int
	reached, release chan struct{}
	killEv string
	killN  int
	kill   func(m *sliceMachine)
}

func (l *c12xRec) tname(t *Task) string {
	if n, ok := l.tasks[t]; ok {
		return n
	}
	n := t.Name.String()
	l.tasks[t] = n
	return n
}

func (l *c12xRec) mach(m *sliceMachine) int {
	if i, ok := l.machs[m]; ok {
		return i
	}
	l.machs[m] = len(l.mlist)
	l.mlist = append(l.mlist, m)
	return len(l.mlist) - 1
}

func (l *c12xRec) put(r vtr.Rec) {
	l.seq++
	r["seq"] = l.seq
	l.evs = append(l.evs, r)
}

// addGraph records tasks not seen before, with their dependencies.
func (l *c12xRec) addGraph(roots []*Task) {
	ts := []vtr.Rec{}
	for _, root := range roots {
		for _, t := range root.All() {
			n := l.tname(t)
			l.driver[t] = true
			if l.graph[n] {
				continue
			}
			l.graph[n] = true
			deps := []string{}
			for _, d := range t.Deps {
				for i := 0; i < d.NumTask(); i++ {
					deps = append(deps, l.tname(d.Task(i)))
				}
			}
			sort.Strings(deps)
			ts = append(ts, vtr.Rec{"t": n, "deps": deps})
		}
	}
	rs := []string{}
	for _, r := range roots {
		rs = append(rs, l.tname(r))
	}
	l.put(vtr.Rec{"ev": "Graph", "tasks": ts, "roots": rs})
}

func (l *c12xRec) hook(ev string, args ...interface{}) {
	var (
		gate   bool
		killm  *sliceMachine
	)
	l.mu.Lock()
	switch ev {
	case "EvalStart":
		l.addGraph(args[1].([]*Task))
	case "EvalSubmit":
		l.driver[args[1].(*Task)] = true
		l.put(vtr.Rec{"ev": ev, "t": l.tname(args[1].(*Task)), "runner": args[2].(bool)})
	case "TaskState":
		if !l.driver[args[0].(*Task)] {
			l.mu.Unlock()
			return
		}
		l.put(vtr.Rec{"ev": ev, "t": l.tname(args[0].(*Task)), "st": args[1].(TaskState).String()})
	case "BmGrant", "BmSetLoc", "BmOkSet":
		if !l.driver[args[0].(*Task)] {
			l.mu.Unlock()
			return
		}
		l.put(vtr.Rec{"ev": ev, "t": l.tname(args[0].(*Task)), "m": l.mach(args[1].(*sliceMachine))})
	case "BmCall":
		if !l.driver[args[0].(*Task)] {
			l.mu.Unlock()
			return
		}
		addrs := args[2].([]string)
		ms := []int{}
		for _, a := range addrs {
			for m, i := range l.machs {
				if m.Addr == a {
					ms = append(ms, i)
				}
			}
		}
		sort.Ints(ms)
		l.put(vtr.Rec{"ev": ev, "t": l.tname(args[0].(*Task)), "m": l.mach(args[1].(*sliceMachine)), "machines": ms, "nmach": len(addrs)})
	case "BmReply":
		if !l.driver[args[0].(*Task)] {
			l.mu.Unlock()
			return
		}
		e := "nil"
		if args[2] != nil {
			if err, ok := args[2].(error); ok && err != nil {
				e = "err"
				if baseerrors.Is(baseerrors.Remote, err) && baseerrors.Match(fatalErr, err) {
					e = "fatal"
				}
			}
		}
		l.put(vtr.Rec{"ev": ev, "t": l.tname(args[0].(*Task)), "m": l.mach(args[1].(*sliceMachine)), "err": e})
	case "BmDiscardClaim":
		if !l.driver[args[0].(*Task)] {
			l.mu.Unlock()
			return
		}
		l.put(vtr.Rec{"ev": ev, "t": l.tname(args[0].(*Task))})
	case "SmAssign":
		if !l.driver[args[1].(*Task)] {
			l.mu.Unlock()
			return
		}
		l.put(vtr.Rec{"ev": ev, "m": l.mach(args[0].(*sliceMachine)), "t": l.tname(args[1].(*Task)), "lost": args[2].(bool)})
	case "SmDiscard":
		if !l.driver[args[1].(*Task)] {
			l.mu.Unlock()
			return
		}
		l.put(vtr.Rec{"ev": ev, "m": l.mach(args[0].(*sliceMachine)), "t": l.tname(args[1].(*Task)), "owned": args[2].(bool)})
	case "SmLost":
		if _, mine := l.machs[args[0].(*sliceMachine)]; !mine {
			// a machine of an earlier session that is still shutting down
			l.mu.Unlock()
			return
		}
		ts := []string{}
		for t := range args[1].(map[*Task]struct{}) {
			ts = append(ts, l.tname(t))
		}
		sort.Strings(ts)
		l.put(vtr.Rec{"ev": ev, "m": l.mach(args[0].(*sliceMachine)), "tasks": ts})
	default:
		l.mu.Unlock()
		return
	}
	l.count[ev]++
	if ev == "BmOkSet" && l.gateAt > 0 && l.count[ev] == l.gateAt {
		gate = true
	}
	if ev == l.killEv && l.killN > 0 && l.count[ev] == l.killN {
		switch ev {
		case "BmCall", "BmReply", "BmSetLoc", "BmOkSet", "BmGrant":
			killm = args[1].(*sliceMachine)
			l.put(vtr.Rec{"ev": "HKill", "m": l.mach(killm)})
		}
	}
	l.mu.Unlock()
	if killm != nil && l.kill != nil {
		l.kill(killm) // (no bigslice lock is held at these hooks)
	}
	if gate {
		close(l.reached)
		select {
		case <-l.release:
		case <-time.After(20 * time.Second):
		}
	}
}

func (l *c12xRec) emit(r vtr.Rec) {
	l.mu.Lock()
	l.put(r)
	l.mu.Unlock()
}

func c12xScan(ctx context.Context, res *Result) (n, sum int, err error) {
	sc := res.Scanner()
	defer sc.Close()
	var k, v int
	for sc.Scan(ctx, &k, &v) {
		n++
		sum += v
	}
	return n, sum, sc.Err()
}

func c12xOutcome(err error, ctx context.Context) string {
	switch {
	case err == nil:
		return "ok"
	case ctx.Err() != nil:
		return "timeout"
	}
	return "err: " + err.Error()
}

func c12xRun(c *c12xCase) (rec vtr.Rec) {
	rec = vtr.Rec{"id": c.ID, "kind": c.Kind, "nshard": c.NShard, "discard": c.Discard}
	l := &c12xRec{driver: map[*Task]bool{}, tasks: map[*Task]string{}, machs: map[*sliceMachine]int{}, graph: map[string]bool{}, count: map[string]int{},
		reached: make(chan struct{}), release: make(chan struct{}), killEv: c.KillEv, killN: c.KillN}
	ntasks := 2 * c.NShard
	if c.Kind == "window" {
		l.gateAt = ntasks - c.Gate
	}
	system := testsystem.New()
	system.Machineprocs = c.Procs
	system.KeepalivePeriod = 200 * time.Millisecond
	system.KeepaliveTimeout = 2 * time.Second // (generous: on a loaded host a lapsed keepalive kills a healthy machine)
	system.KeepaliveRpcTimeout = 500 * time.Millisecond
	cl := system.HTTPClient()
	deadAddrs := &c12xDead{base: cl.Transport, dead: map[string]bool{}}
	cl.Transport = deadAddrs
	l.kill = func(m *sliceMachine) {
		deadAddrs.kill(m.Addr)
		done := make(chan struct{})
		go func() {
			defer close(done)
			for i := 0; i < system.N(); i++ {
				func() {
					defer func() { recover() }()
					if bm := system.Index(i); bm.Addr == m.Addr {
						system.Kill(bm)
					}
				}()
			}
		}()
		select {
		case <-done:
		case <-time.After(5 * time.Second):
		}
	}
	verifHook = l.hook
	defer func() { verifHook = nil }()
	sess := Start(Bigmachine(system), Parallelism(4*c.Procs))
	defer func() {
		done := make(chan struct{})
		go func() { sess.Shutdown(); close(done) }()
		select {
		case <-done:
		case <-time.After(10 * time.Second):
		}
	}()
	// stage 1
	ctx1, cancel1 := context.WithTimeout(context.Background(), 60*time.Second)
	type runres struct {
		res *Result
		err error
	}
	rc := make(chan runres, 1)
	go func() {
		f := c12xStage1
		if c.Kind == "fatal" {
			f = c12xStage1F
		}
		r, err := sess.Run(ctx1, f, c.NShard)
		rc <- runres{r, err}
	}()
	// window: the gate sits between the point where the executor used to mark the task OK and m.Assign(task). If the
	// run returns while the gate is held, a window exists in which the result can be discarded (held until after the
	// Discard below); if the gate is reached and the run does not return, the task is not OK before it is assigned:
	// there is no window, and the gate is released at once.
	var r1 runres
	gated, window := false, false
	if c.Kind == "window" {
		select {
		case r1 = <-rc:
			select {
			case <-l.reached:
				gated, window = true, true
			case <-time.After(2 * time.Second):
			}
		case <-l.reached:
			gated = true
			select {
			case r1 = <-rc:
				window = true
			case <-time.After(1500 * time.Millisecond):
				close(l.release)
				r1 = <-rc
			}
		}
	} else {
		r1 = <-rc
	}
	rec["run1"] = c12xOutcome(r1.err, ctx1)
	cancel1()
	rec["window"] = window
	rec["gated"] = gated
	released := c.Kind == "window" && gated && !window
	if r1.err != nil {
		if !released {
			close(l.release)
		}
		l.mu.Lock()
		rec["events"] = append([]vtr.Rec{}, l.evs...)
		l.mu.Unlock()
		rec["reuse"], rec["rows"], rec["sum"] = "skipped", 0, 0
		if c.Kind == "fatal" {
			// the session must remain usable: a healthy program runs and is scanned
			l.emit(vtr.Rec{"ev": "HReuse"})
			ctx2, cancel2 := context.WithTimeout(context.Background(), 30*time.Second)
			r2, err := sess.Run(ctx2, c12xStage1, c.NShard)
			rec["reuse"] = c12xOutcome(err, ctx2)
			if err == nil {
				rows, sum, serr := c12xScan(ctx2, r2)
				rec["rows"], rec["sum"] = rows, sum
				if serr != nil {
					rec["reuse"] = "scan " + c12xOutcome(serr, ctx2)
				}
			}
			cancel2()
			rec["wantrows"], rec["wantsum"] = 11, 24*c.NShard
			l.emit(vtr.Rec{"ev": "HEnd"})
			l.mu.Lock()
			rec["events"] = append([]vtr.Rec{}, l.evs...)
			l.mu.Unlock()
		}
		return
	}
	if c.Kind == "conc" {
		// two invocations consume the result at the same time (they share its tasks: one of them runs a task that has
		// to be recomputed, the other waits for it), optionally with a Discard of the result racing with them
		l.emit(vtr.Rec{"ev": "HReuse"})
		ctx2, cancel2 := context.WithTimeout(context.Background(), 40*time.Second)
		type out struct {
			o         string
			rows, sum int
		}
		outs := make([]out, 2)
		var wg sync.WaitGroup
		for i := range outs {
			i := i
			wg.Add(1)
			go func() {
				defer wg.Done()
				r2, err := sess.Run(ctx2, c12xStage2, r1.res)
				outs[i].o = c12xOutcome(err, ctx2)
				if err == nil {
					var serr error
					outs[i].rows, outs[i].sum, serr = c12xScan(ctx2, r2)
					if serr != nil {
						outs[i].o = "scan " + c12xOutcome(serr, ctx2)
					}
				}
			}()
		}
		rec["discardret"] = true
		if c.Discard {
			time.Sleep(time.Duration(c.Gate) * time.Millisecond)
			l.emit(vtr.Rec{"ev": "HDiscard"})
			dctx, dcancel := context.WithTimeout(context.Background(), 10*time.Second)
			ddone := make(chan struct{})
			go func() { r1.res.Discard(dctx); close(ddone) }()
			select {
			case <-ddone:
			case <-time.After(12 * time.Second):
				rec["discardret"] = false
			}
			dcancel()
			l.emit(vtr.Rec{"ev": "HDiscardDone"})
		}
		wg.Wait()
		cancel2()
		rec["reuse"], rec["rows"], rec["sum"] = outs[0].o, outs[0].rows, outs[0].sum
		if outs[1].o != "ok" {
			rec["reuse"] = outs[1].o
		} else if outs[0].o == "ok" && (outs[1].rows != outs[0].rows || outs[1].sum != outs[0].sum) {
			rec["rows"], rec["sum"] = -1, -1 // the two consumers disagree
		}
		rec["wantrows"], rec["wantsum"] = 11, 24*c.NShard+11
		l.emit(vtr.Rec{"ev": "HEnd"})
		l.mu.Lock()
		rec["events"] = append([]vtr.Rec{}, l.evs...)
		l.mu.Unlock()
		return
	}
	if c.Discard {
		l.emit(vtr.Rec{"ev": "HDiscard"})
		dctx, dcancel := context.WithTimeout(context.Background(), 10*time.Second)
		ddone := make(chan struct{})
		go func() { r1.res.Discard(dctx); close(ddone) }()
		select {
		case <-ddone:
			rec["discardret"] = true
		case <-time.After(12 * time.Second):
			rec["discardret"] = false
		}
		dcancel()
		l.emit(vtr.Rec{"ev": "HDiscardDone"})
	}
	if !released {
		close(l.release)
	}
	time.Sleep(50 * time.Millisecond)
	// stage 2: consume the result
	l.emit(vtr.Rec{"ev": "HReuse"})
	ctx2, cancel2 := context.WithTimeout(context.Background(), 30*time.Second)
	r2, err := sess.Run(ctx2, c12xStage2, r1.res)
	rec["reuse"] = c12xOutcome(err, ctx2)
	rows, sum := 0, 0
	if err == nil {
		var serr error
		rows, sum, serr = c12xScan(ctx2, r2)
		if serr != nil {
			rec["reuse"] = "scan " + c12xOutcome(serr, ctx2)
		}
	}
	cancel2()
	rec["rows"], rec["sum"] = rows, sum
	rec["wantrows"], rec["wantsum"] = 11, 24*c.NShard+11
	l.emit(vtr.Rec{"ev": "HEnd"})
	l.mu.Lock()
	rec["events"] = append([]vtr.Rec{}, l.evs...)
	l.mu.Unlock()
	return
}

func TestVerifC12X(t *testing.T) {
	path := os.Getenv("VERIF_CASES")
	if path == "" {
		t.Skip("no cases")
	}
	var cases []*c12xCase
	vtr.ReadJSON(path, &cases)
	// time scales (as the probation and keepalive periods in the other harnesses): a worker that reads from a machine
	// that has just died retries for minutes with the production policy (5 s .. 60 s back-off, 5 tries), and
	// bigmachine gives a booting machine minutes; both are scaled so that recovery fits a scenario's deadline
	oldPolicy := retryPolicy
	retryPolicy = retry.MaxRetries(retry.Backoff(100*time.Millisecond, time.Second, 2), 5)
	bigmachine.BootPingTimeout, bigmachine.BootPingRpcTimeout = 6*time.Second, 2*time.Second
	bigmachine.BootCallTimeout, bigmachine.BootCallRpcTimeout = 6*time.Second, 2*time.Second
	defer func() { retryPolicy = oldPolicy }()
	w := vtr.Create("c12x_records.ndjson")
	defer w.Close()
	for _, c := range cases {
		if c.Procs <= 0 {
			c.Procs = 1
		}
		var rec vtr.Rec
		func() {
			defer func() {
				if e := recover(); e != nil {
					rec = vtr.Rec{"id": c.ID, "kind": c.Kind, "panic": fmt.Sprint(e), "events": []vtr.Rec{}}
				}
			}()
			rec = c12xRun(c)
		}()
		w.Put(rec)
	}
}
