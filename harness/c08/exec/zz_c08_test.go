package exec

// C08 harness (work copy only): builds slice programs from a JSON description, compiles each invocation
// (a) on the driver, (b) a second time on the driver, (c) through the real worker.Compile from the gob-encoded
// invocation (Result arguments as invocation references), and dumps the three task graphs. The check runs this
// test binary in two separately started processes and hands both dumps to TLC. specs/Compile.tla judges
// well-formedness and equality.

import (
	"bytes"
	"context"
	"encoding/gob"
	"encoding/json"
	"fmt"
	"os"
	"reflect"
	"sort"
	"testing"

	"github.com/grailbio/bigslice"
	"github.com/grailbio/bigslice/internal/vtr"
	"github.com/grailbio/bigslice/sliceio"
	"github.com/grailbio/bigslice/stats"
)

type c08Node struct {
	Op     string   `json:"op"`
	In     []int    `json:"in"`
	N      int      `json:"n"`
	NShard int      `json:"nshard"`
	Arg    int      `json:"arg"`
	Pragma []string `json:"pragma"`
}

type c08Prog struct {
	Nodes []c08Node `json:"nodes"`
	Out   int       `json:"out"`
	Dir   string    `json:"dir"`
}

type c08Case struct {
	ID    int        `json:"id"`
	Progs []*c08Prog `json:"progs"` // invocations in order; prog k may take results of earlier ones
	Args  [][]int    `json:"args"`  // per prog: indexes of earlier progs passed as Result arguments
}

func c08Pragmas(n *c08Node) []bigslice.Pragma {
	var ps []bigslice.Pragma
	for _, p := range n.Pragma {
		switch p {
		case "procs2":
			ps = append(ps, bigslice.Procs(2))
		case "exclusive":
			ps = append(ps, bigslice.Exclusive)
		case "materialize":
			ps = append(ps, bigslice.ExperimentalMaterialize)
		}
	}
	return ps
}

func c08CachePrefix(p *c08Prog, node int) string { return fmt.Sprintf("%s/n%d", p.Dir, node) }

func c08Build(p *c08Prog, args []bigslice.Slice) bigslice.Slice {
	ctx := context.Background()
	out := make([]bigslice.Slice, len(p.Nodes))
	for i := range p.Nodes {
		nd := &p.Nodes[i]
		var in []bigslice.Slice
		for _, j := range nd.In {
			in = append(in, out[j])
		}
		var s bigslice.Slice
		switch nd.Op {
		case "const":
			s = bigslice.Const(nd.NShard, []int{1, 2, 3}, []int{4, 5, 6})
		case "readerfunc":
			s = bigslice.ReaderFunc(nd.NShard, func(shard int, st *int, ks, vs []int) (int, error) { return 0, sliceio.EOF }, c08Pragmas(nd)...)
		case "arg":
			s = args[nd.Arg]
		case "map":
			s = bigslice.Map(in[0], func(k, v int) (int, int) { return k, v }, c08Pragmas(nd)...)
		case "filter":
			s = bigslice.Filter(in[0], func(k, v int) bool { return true }, c08Pragmas(nd)...)
		case "flatmap":
			s = bigslice.Flatmap(in[0], func(k, v int) ([]int, []int) { return nil, nil }, c08Pragmas(nd)...)
		case "fold":
			s = bigslice.Fold(in[0], func(a, v int) int { return a + v })
		case "head":
			s = bigslice.Head(in[0], nd.N)
		case "reduce":
			s = bigslice.Reduce(in[0], func(a, b int) int { return a + b })
		case "cogroup":
			cg := bigslice.Cogroup(in...)
			switch len(in) {
			case 1:
				s = bigslice.Map(cg, func(k int, a []int) (int, int) { return k, len(a) })
			case 2:
				s = bigslice.Map(cg, func(k int, a, b []int) (int, int) { return k, len(a) })
			default:
				s = bigslice.Map(cg, func(k int, a, b, c []int) (int, int) { return k, len(a) })
			}
		case "reshuffle":
			s = bigslice.Reshuffle(in[0])
		case "repartition":
			s = bigslice.Repartition(in[0], func(n, k, v int) int { return k % n })
		case "reshard":
			s = bigslice.Reshard(in[0], nd.N)
		case "prefixed":
			s = bigslice.Prefixed(in[0], nd.N)
		case "cache":
			s = bigslice.Cache(ctx, in[0], c08CachePrefix(p, i))
		case "cachepartial":
			s = bigslice.CachePartial(ctx, in[0], c08CachePrefix(p, i))
		case "writerfunc":
			s = bigslice.WriterFunc(in[0], func(shard int, st struct{}, err error, ks, vs []int) error { return nil })
		default:
			panic("op " + nd.Op)
		}
		out[i] = s
	}
	return out[p.Out]
}

func c08Decode(spec string) *c08Prog {
	var p c08Prog
	if err := json.Unmarshal([]byte(spec), &p); err != nil {
		panic(err)
	}
	return &p
}

var (
	c08Func0 = bigslice.Func(func(spec string) bigslice.Slice { return c08Build(c08Decode(spec), nil) })
	c08Func1 = bigslice.Func(func(spec string, a bigslice.Slice) bigslice.Slice {
		return c08Build(c08Decode(spec), []bigslice.Slice{a})
	})
	c08Func2 = bigslice.Func(func(spec string, a, b bigslice.Slice) bigslice.Slice {
		return c08Build(c08Decode(spec), []bigslice.Slice{a, b})
	})
)

func c08TaskName(t *Task) string {
	return fmt.Sprintf("%d/%s/%d/%d", t.Name.InvIndex, t.Name.Op, t.Name.Shard, t.Name.NumShard)
}

func c08Dump(roots []*Task) vtr.Rec {
	all := map[*Task]bool{}
	for _, r := range roots {
		r.all(all)
	}
	rootNames := []string{}
	for _, r := range roots {
		rootNames = append(rootNames, c08TaskName(r))
	}
	var ts []*Task
	for t := range all {
		ts = append(ts, t)
	}
	sort.Slice(ts, func(i, j int) bool { return c08TaskName(ts[i]) < c08TaskName(ts[j]) })
	out := []vtr.Rec{}
	for _, t := range ts {
		deps := []vtr.Rec{}
		for _, d := range t.Deps {
			grp := []string{}
			for k := 0; k < d.NumTask(); k++ {
				grp = append(grp, c08TaskName(d.Task(k)))
			}
			deps = append(deps, vtr.Rec{"head": c08TaskName(d.Head), "part": d.Partition, "expand": d.Expand, "ckey": d.CombineKey, "tasks": grp})
		}
		group := []string{}
		for _, g := range t.Group {
			group = append(group, c08TaskName(g))
		}
		slices := []vtr.Rec{}
		for _, s := range t.Slices {
			sh := []bool{}
			for k := 0; k < s.NumDep(); k++ {
				sh = append(sh, s.Dep(k).Shuffle)
			}
			mat := false
			if pr, ok := s.(bigslice.Pragma); ok {
				mat = pr.Materialize()
			}
			_, isres := bigslice.Unwrap(s).(*Result)
			depres := []bool{}
			depmat := []bool{}
			deppart := []bool{}
			depexp := []bool{}
			for k := 0; k < s.NumDep(); k++ {
				_, r := bigslice.Unwrap(s.Dep(k).Slice).(*Result)
				depres = append(depres, r)
				m := false
				if pr, ok := s.Dep(k).Slice.(bigslice.Pragma); ok {
					m = pr.Materialize()
				}
				depmat = append(depmat, m)
				deppart = append(deppart, s.Dep(k).Partitioner != nil)
				depexp = append(depexp, s.Dep(k).Expand)
			}
			slices = append(slices, vtr.Rec{"op": s.Name().Op, "ndep": s.NumDep(), "shuffle": sh, "materialize": mat, "isresult": isres, "hascomb": !s.Combiner().IsNil(),
				"depresult": depres, "depmaterialize": depmat, "deppart": deppart, "depexpand": depexp, "nshard": s.NumShard()})
		}
		reshuf := false
		if ts, ok := t.Type.(bigslice.Slice); ok {
			_, reshuf = bigslice.Unwrap(ts).(*Result)
		}
		cached := false
		for i := range t.Slices {
			cached = cached || t.Invocation.Env.IsCached(t.Name, i)
		}
		custom := t.Partitioner != nil && reflect.ValueOf(t.Partitioner).Pointer() != reflect.ValueOf(bigslice.Partitioner(defaultPartitioner)).Pointer()
		out = append(out, vtr.Rec{"name": c08TaskName(t), "inv": int(t.Name.InvIndex), "op": t.Name.Op, "shard": t.Name.Shard, "nshard": t.Name.NumShard,
			"npart": t.NumPartition, "ckey": t.CombineKey, "hascomb": !t.Combiner.IsNil(), "custompart": custom,
			"procs": t.Pragma.Procs(), "excl": t.Pragma.Exclusive(), "deps": deps, "group": group, "slices": slices, "reshuf": reshuf, "cached": cached})
	}
	return vtr.Rec{"tasks": out, "roots": rootNames}
}

// c08CacheFiles makes the cache files of every cache node present for the shards in the node's mask (flip: for
// exactly the other shards).
func c08CacheFiles(p *c08Prog, flip bool) {
	for i := range p.Nodes {
		nd := &p.Nodes[i]
		if nd.Op != "cache" && nd.Op != "cachepartial" {
			continue
		}
		for sh := 0; sh < nd.NShard; sh++ {
			path := fmt.Sprintf("%s-%04d-of-%04d", c08CachePrefix(p, i), sh, nd.NShard)
			if (nd.N>>uint(sh)&1 == 1) != flip {
				if err := os.WriteFile(path, nil, 0644); err != nil {
					panic(err)
				}
			} else {
				os.Remove(path)
			}
		}
	}
}

func c08Run(c *c08Case, mc bool, dir string) (rec vtr.Rec) {
	rec = vtr.Rec{"id": c.ID, "machcomb": mc}
	invs := []vtr.Rec{}
	defer func() {
		if e := recover(); e != nil {
			rec["panic"] = fmt.Sprint(e)
		}
		rec["invs"] = invs
	}()
	w := &worker{MachineCombiners: mc}
	w.tasks = make(map[uint64]map[TaskName]*Task)
	w.taskStats = make(map[uint64]map[TaskName]*stats.Map)
	w.slices = make(map[uint64]bigslice.Slice)
	results := make([]*Result, len(c.Progs))
	bx := &bigmachineExecutor{invocations: map[uint64]execInvocation{}, invocationDeps: map[uint64]map[uint64]bool{}}
	for k, p := range c.Progs {
		p.Dir = fmt.Sprintf("%s/c%d_%v_%d", dir, c.ID, mc, k)
		if err := os.MkdirAll(p.Dir, 0755); err != nil {
			panic(err)
		}
		c08CacheFiles(p, false)
		spec, _ := json.Marshal(p)
		var (
			fn   *bigslice.FuncValue
			args = []interface{}{string(spec)}
		)
		for _, a := range c.Args[k] {
			args = append(args, results[a])
		}
		switch len(c.Args[k]) {
		case 0:
			fn = c08Func0
		case 1:
			fn = c08Func1
		default:
			fn = c08Func2
		}
		// the driver's path (Session.run)
		inv := makeExecInvocation(fn.Invocation("c08", args...))
		inv.Index = uint64(k + 1) // the same in every process
		slice := inv.Invoke()
		tasks, err := compile(inv, slice, mc)
		if err != nil {
			invs = append(invs, vtr.Rec{"err": err.Error()})
			return
		}
		inv.Env.Freeze()
		results[k] = &Result{Slice: slice, invIndex: inv.Index, tasks: tasks}
		g1 := c08Dump(tasks)
		// repeated on the driver
		inv2 := inv
		inv2.Env = makeCompileEnv()
		tasks2, err := compile(inv2, inv2.Invoke(), mc)
		if err != nil {
			invs = append(invs, vtr.Rec{"err": "second: " + err.Error()})
			return
		}
		g2 := c08Dump(tasks2)
		// the worker's path: the transported invocation (Result arguments as references, frozen environment),
		// compiled when the cache files have changed since the driver looked
		c08CacheFiles(p, true)
		// (the executor ships the invocation value carried by the tasks it is asked to run: Task.Invocation)
		tinv := inv
		shipped := map[*Task]bool{}
		for _, t := range tasks {
			t.all(shipped)
		}
		for t := range shipped {
			if t.Invocation.Index == inv.Index {
				tinv = t.Invocation
				break
			}
		}
		// through the executor's own bookkeeping (Result arguments become references; what it stores is what it
		// encodes for Worker.Compile)
		if _, err := bx.addInvocation(tinv); err != nil {
			invs = append(invs, vtr.Rec{"err": "addInvocation: " + err.Error()})
			return
		}
		var b bytes.Buffer
		if err := gob.NewEncoder(&b).Encode(bx.invocations[inv.Index]); err != nil {
			invs = append(invs, vtr.Rec{"err": "encode: " + err.Error()})
			return
		}
		werr := ""
		g3 := vtr.Rec{"tasks": []vtr.Rec{}, "roots": []string{}}
		nnamed := 0
		if err := w.Compile(context.Background(), &b, nil); err != nil {
			werr = err.Error()
		} else {
			g3 = c08Dump(w.slices[inv.Index].(*Result).tasks)
			nnamed = len(w.tasks[inv.Index])
		}
		invs = append(invs, vtr.Rec{"err": "", "nshard": slice.NumShard(), "g1": g1, "g2": g2, "g3": g3, "werr": werr, "nnamed": nnamed})
	}
	return
}

func TestVerifC08(t *testing.T) {
	path := os.Getenv("VERIF_CASES")
	if path == "" {
		t.Skip("no cases")
	}
	var cases []*c08Case
	vtr.ReadJSON(path, &cases)
	w := vtr.Create("c08_records_" + os.Getenv("VERIF_PROC") + ".ndjson")
	defer w.Close()
	dir, err := os.MkdirTemp("", "c08")
	if err != nil {
		t.Fatal(err)
	}
	defer os.RemoveAll(dir)
	for _, c := range cases {
		for _, mc := range []bool{false, true} {
			w.Put(c08Run(c, mc, dir))
		}
	}
}
