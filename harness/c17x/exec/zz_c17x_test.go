package exec

// C17 harness part 2 (work copy only): the exec package's own readers (multiReader used by the
// local executor, taskBuffer readers). Same record format as harness/c17.

import (
	"context"
	"errors"
	"fmt"
	"os"
	"reflect"
	"testing"

	"github.com/grailbio/bigslice/frame"
	"github.com/grailbio/bigslice/internal/vtr"
	"github.com/grailbio/bigslice/sliceio"
	"github.com/grailbio/bigslice/slicetype"
)

type c17xCase struct {
	ID      int       `json:"id"`
	Kind    string    `json:"kind"`
	NCol    int       `json:"ncol"`
	Srcs    [][][]int `json:"srcs"`
	Chunks  []int     `json:"chunks"`
	EOFLast bool      `json:"eoflast"`
	Reads   []int     `json:"reads"`
	Param   int       `json:"param"`
	ErrAt   int       `json:"errat"`
}

var errC17xBoom = errors.New("boom-upstream")

type c17xScripted struct {
	rows    frame.Frame
	pos     int
	chunks  []int
	ci      int
	eofLast bool
	errAt   int
	calls   int
	failed  bool
	eofSeen bool
}

func (s *c17xScripted) Read(ctx context.Context, out frame.Frame) (int, error) {
	if s.eofSeen {
		return 0, sliceio.EOF
	}
	s.calls++
	if s.failed || (s.errAt > 0 && s.calls == s.errAt) {
		s.failed = true
		return 0, errC17xBoom
	}
	total := s.rows.Len()
	if s.pos == total {
		s.eofSeen = true
		return 0, sliceio.EOF
	}
	c := out.Len()
	if len(s.chunks) > 0 {
		c = s.chunks[s.ci%len(s.chunks)]
		s.ci++
	}
	n := c
	if out.Len() < n {
		n = out.Len()
	}
	if total-s.pos < n {
		n = total - s.pos
	}
	frame.Copy(out, s.rows.Slice(s.pos, s.pos+n))
	s.pos += n
	if s.pos == total && s.eofLast && n > 0 {
		s.eofSeen = true
		return n, sliceio.EOF
	}
	return n, nil
}

func c17xFrame(rows [][]int, ncol int) frame.Frame {
	cols := make([]interface{}, ncol)
	for c := 0; c < ncol; c++ {
		v := make([]int, len(rows))
		for i, r := range rows {
			v[i] = r[c]
		}
		cols[c] = v
	}
	return frame.Slices(cols...)
}

func c17xRows(f frame.Frame, n int) [][]interface{} {
	out := make([][]interface{}, n)
	for i := 0; i < n; i++ {
		row := make([]interface{}, f.NumOut())
		for c := 0; c < f.NumOut(); c++ {
			row[c] = int(f.Index(c, i).Int())
		}
		out[i] = row
	}
	return out
}

func c17xRun(ctx context.Context, c *c17xCase) (rec vtr.Rec) {
	rec = vtr.Rec{"id": c.ID, "kind": c.Kind, "ncol": c.NCol, "srcs": c.Srcs, "param": c.Param,
		"errat": c.ErrAt, "chunks": c.Chunks, "eoflast": c.EOFLast}
	var reads []vtr.Rec
	defer func() {
		if e := recover(); e != nil {
			rec["panic"] = fmt.Sprint(e)
			if reads == nil {
				reads = []vtr.Rec{}
			}
			rec["reads"] = reads
			rec["retained"] = [][]interface{}{}
		}
	}()
	ts := make([]reflect.Type, c.NCol)
	for i := range ts {
		ts[i] = reflect.TypeOf(int(0))
	}
	typ := slicetype.New(ts...)
	var r sliceio.Reader
	switch c.Kind {
	case "execmulti":
		m := new(multiReader)
		for i := range c.Srcs {
			s := &c17xScripted{rows: c17xFrame(c.Srcs[i], c.NCol), chunks: c.Chunks, eofLast: c.EOFLast}
			if i == 0 {
				s.errAt = c.ErrAt
			}
			m.q = append(m.q, s)
		}
		r = m
	case "taskbuffer":
		// one partition holding the source split into frames according to chunks (0 = empty frame)
		var frames []frame.Frame
		f := c17xFrame(c.Srcs[0], c.NCol)
		pos, ci := 0, 0
		for pos < f.Len() && ci < 64 {
			n := f.Len() - pos
			if len(c.Chunks) > 0 {
				n = c.Chunks[ci%len(c.Chunks)]
				ci++
			}
			if n > f.Len()-pos {
				n = f.Len() - pos
			}
			frames = append(frames, f.Slice(pos, pos+n))
			pos += n
		}
		if pos < f.Len() {
			frames = append(frames, f.Slice(pos, f.Len()))
		}
		r = taskBuffer{frames}.Reader(0)
	default:
		panic("unknown kind " + c.Kind)
	}
	var (
		kept  []frame.Frame
		keptN []int
		after int
	)
	// enough reads to reach the end one row at a time (a session cut short would look like a missing EOF)
	maxReads := 400
	for _, src := range c.Srcs {
		maxReads += 5 * len(src)
	}
	for i := 0; i < maxReads; i++ {
		k := c.Reads[i%len(c.Reads)]
		dst := frame.Make(typ, k, k)
		for col := 0; col < c.NCol; col++ {
			for j := 0; j < k; j++ {
				dst.Index(col, j).SetInt(int64(-1000 - j))
			}
		}
		n, err := r.Read(ctx, dst)
		en := ""
		switch {
		case err == nil:
		case err == sliceio.EOF:
			en = "EOF"
		case err == errC17xBoom:
			en = "boom"
		default:
			en = "other:" + err.Error()
		}
		reads = append(reads, vtr.Rec{"k": k, "n": n, "err": en, "dst": c17xRows(dst, k)})
		if n > 0 && n <= k {
			kept = append(kept, dst)
			keptN = append(keptN, n)
		}
		if err != nil {
			after++
			if after >= 3 {
				break
			}
		}
	}
	retained := [][]interface{}{}
	for i, f := range kept {
		retained = append(retained, c17xRows(f, keptN[i])...)
	}
	rec["reads"] = reads
	rec["retained"] = retained
	return
}

func TestVerifC17x(t *testing.T) {
	path := os.Getenv("VERIF_CASES")
	if path == "" {
		t.Skip("no cases")
	}
	var cases []*c17xCase
	vtr.ReadJSON(path, &cases)
	w := vtr.Create("c17x_records.ndjson")
	defer w.Close()
	for _, c := range cases {
		w.Put(c17xRun(context.Background(), c))
	}
}
