package bigslice_test

// C18 harness (work copy only): calls every operator constructor over a cross product of input slice types
// and dynamically built function signatures, and records whether it accepted, rejected with a typecheck
// error attributed to this file and line, or panicked otherwise, plus the type, prefix and shard count of the
// slice returned. specs/Typecheck.tla states the documented schemas and is the judge.

import (
	"context"
	"fmt"
	"os"
	"reflect"
	"runtime"
	"strings"
	"testing"

	"github.com/grailbio/bigslice"
	"github.com/grailbio/bigslice/internal/vtr"
	"github.com/grailbio/bigslice/typecheck"
)

type c18Pair struct{ A int }

var c18Types = map[string]reflect.Type{
	"int": reflect.TypeOf(int(0)), "int64": reflect.TypeOf(int64(0)), "string": reflect.TypeOf(""), "bool": reflect.TypeOf(false),
	"float64": reflect.TypeOf(float64(0)), "pair": reflect.TypeOf(c18Pair{}),
	"[]int": reflect.TypeOf([]int(nil)), "[]string": reflect.TypeOf([]string(nil)), "[]bool": reflect.TypeOf([]bool(nil)),
	"[]pair": reflect.TypeOf([]c18Pair(nil)), "[][]int": reflect.TypeOf([][]int(nil)),
	"iface": reflect.TypeOf((*interface{})(nil)).Elem(), "error": reflect.TypeOf((*error)(nil)).Elem(),
	"ctx": reflect.TypeOf((*context.Context)(nil)).Elem(), "struct{}": reflect.TypeOf(struct{}{}),
}

func c18Name(t reflect.Type) string {
	for n, u := range c18Types {
		if t == u {
			return n
		}
	}
	return "?" + t.String()
}

type c18Slice struct {
	Cols   []string `json:"cols"`
	Prefix int      `json:"prefix"`
	NShard int      `json:"nshard"`
}

type c18Sig struct {
	Ins      []string `json:"ins"`
	Outs     []string `json:"outs"`
	Variadic bool     `json:"variadic"`
	NotFunc  bool     `json:"notfunc"`
}

type c18Case struct {
	ID     int        `json:"id"`
	Ctor   string     `json:"ctor"`
	Slices []c18Slice `json:"slices"`
	Sig    c18Sig     `json:"sig"`
	N      int        `json:"n"`
}

func c18Make(s c18Slice) bigslice.Slice {
	cols := make([]interface{}, len(s.Cols))
	for i, c := range s.Cols {
		cols[i] = reflect.MakeSlice(reflect.SliceOf(c18Types[c]), 0, 0).Interface()
	}
	sl := bigslice.Const(s.NShard, cols...)
	if s.Prefix > 1 {
		sl = bigslice.Prefixed(sl, s.Prefix)
	}
	return sl
}

func c18Func(sig c18Sig) interface{} {
	if sig.NotFunc {
		return 42
	}
	ins := make([]reflect.Type, len(sig.Ins))
	for i, n := range sig.Ins {
		ins[i] = c18Types[n]
	}
	outs := make([]reflect.Type, len(sig.Outs))
	for i, n := range sig.Outs {
		outs[i] = c18Types[n]
	}
	ft := reflect.FuncOf(ins, outs, sig.Variadic)
	return reflect.MakeFunc(ft, func(args []reflect.Value) []reflect.Value {
		rs := make([]reflect.Value, len(outs))
		for i := range rs {
			rs[i] = reflect.Zero(outs[i])
		}
		return rs
	}).Interface()
}

func c18Run(c *c18Case) (rec vtr.Rec) {
	rec = vtr.Rec{"id": c.ID, "ctor": c.Ctor, "slices": c.Slices, "sig": c.Sig, "n": c.N}
	var in []bigslice.Slice
	func() {
		defer func() {
			if e := recover(); e != nil {
				rec["setup_panic"] = fmt.Sprint(e)
			}
		}()
		for _, s := range c.Slices {
			in = append(in, c18Make(s))
		}
	}()
	if rec["setup_panic"] != nil {
		rec["outcome"] = "setup"
		rec["locok"] = false
		rec["rcols"], rec["rprefix"], rec["rnshard"] = []string{}, 0, 0
		return
	}
	fn := c18Func(c.Sig)
	var (
		out  bigslice.Slice
		line int
	)
	func() {
		defer func() {
			if e := recover(); e != nil {
				if te, ok := e.(*typecheck.Error); ok {
					rec["outcome"] = "typecheck"
					rec["locok"] = strings.HasSuffix(te.File, "zz_c18_test.go") && te.Line == line
					rec["loc"] = fmt.Sprintf("%s:%d (call at line %d)", te.File, te.Line, line)
				} else {
					rec["outcome"] = "panic"
					rec["locok"] = false
					rec["panic"] = fmt.Sprintf("%T: %v", e, e)
				}
			}
		}()
		switch c.Ctor {
		case "map":
			_, _, line, _ = runtime.Caller(0); out = bigslice.Map(in[0], fn)
		case "filter":
			_, _, line, _ = runtime.Caller(0); out = bigslice.Filter(in[0], fn)
		case "flatmap":
			_, _, line, _ = runtime.Caller(0); out = bigslice.Flatmap(in[0], fn)
		case "fold":
			_, _, line, _ = runtime.Caller(0); out = bigslice.Fold(in[0], fn)
		case "reduce":
			_, _, line, _ = runtime.Caller(0); out = bigslice.Reduce(in[0], fn)
		case "repartition":
			_, _, line, _ = runtime.Caller(0); out = bigslice.Repartition(in[0], fn)
		case "reshuffle":
			_, _, line, _ = runtime.Caller(0); out = bigslice.Reshuffle(in[0])
		case "reshard":
			_, _, line, _ = runtime.Caller(0); out = bigslice.Reshard(in[0], c.N)
		case "head":
			_, _, line, _ = runtime.Caller(0); out = bigslice.Head(in[0], c.N)
		case "prefixed":
			_, _, line, _ = runtime.Caller(0); out = bigslice.Prefixed(in[0], c.N)
		case "cogroup":
			_, _, line, _ = runtime.Caller(0); out = bigslice.Cogroup(in...)
		case "readerfunc":
			_, _, line, _ = runtime.Caller(0); out = bigslice.ReaderFunc(c.N, fn)
		case "writerfunc":
			_, _, line, _ = runtime.Caller(0); out = bigslice.WriterFunc(in[0], fn)
		default:
			panic("unknown ctor " + c.Ctor)
		}
		rec["outcome"] = "ok"
		rec["locok"] = true
	}()
	rcols := []string{}
	rec["rprefix"], rec["rnshard"] = 0, 0
	if out != nil && rec["outcome"] == "ok" {
		for i := 0; i < out.NumOut(); i++ {
			rcols = append(rcols, c18Name(out.Out(i)))
		}
		rec["rprefix"], rec["rnshard"] = out.Prefix(), out.NumShard()
	}
	rec["rcols"] = rcols
	return
}

func TestVerifC18(t *testing.T) {
	path := os.Getenv("VERIF_CASES")
	if path == "" {
		t.Skip("no cases")
	}
	var cases []*c18Case
	vtr.ReadJSON(path, &cases)
	w := vtr.Create("c18_records.ndjson")
	defer w.Close()
	for _, c := range cases {
		w.Put(c18Run(c))
	}
}
