package exec

// C03/C19 harness (injected into a scratch work copy only): drives the real exec.Eval through
// environment schedules (task outcomes, losses, delayed completion messages, cancellation),
// step-synchronously, using the verif hooks as quiescence signals and the EvalPost hook as a gate.
// Records one NDJSON trace per schedule; TLC (EvalMon / EvalTrace) is the judge.

import (
	"context"
	"errors"
	"fmt"
	"math/rand"
	"net/http"
	"os"
	"sort"
	"sync"
	"testing"
	"time"

	"github.com/grailbio/base/eventlog"
	"github.com/grailbio/bigslice/internal/vtr"
	"github.com/grailbio/bigslice/sliceio"
)

type c03Sched struct {
	ID    string              `json:"id"`
	Tasks []string            `json:"tasks"`
	Deps  map[string][]string `json:"deps"`  // task -> heads of its dependencies
	Phase map[string][]string `json:"phase"` // task -> its phase (group) in order; [t] if none
	Roots map[string][]string `json:"roots"` // evaluation -> roots
	Init  map[string]string   `json:"init"`
	Steps [][]string          `json:"steps"`
	Free  bool                `json:"free"` // free-running: posts are not gated
}

type c03Exec struct{ h *c03Harness }

func (c03Exec) Name() string                         { return "ctl" }
func (c03Exec) Start(*Session) func()                { return func() {} }
func (x c03Exec) Run(t *Task)                        { x.h.hook("ExecRun", t) }
func (c03Exec) Reader(*Task, int) sliceio.ReadCloser { panic("not used") }
func (c03Exec) Discard(context.Context, *Task)       {}
func (c03Exec) Eventer() eventlog.Eventer            { return eventlog.Nop{} }
func (c03Exec) HandleDebug(*http.ServeMux)           {}

type c03Waiter struct {
	atGate  bool
	gate    chan struct{}
	release bool // release immediately when it arrives at the gate
}

type c03Harness struct {
	mu       sync.Mutex
	w        *vtr.W
	tr       int
	names    map[*Task]string
	tasks    map[string]*Task
	evals    map[*state]string
	starting string
	evStatus map[string]string // "", "busy", "idle", "exit"
	waiters  map[string]*c03Waiter
	runsWant int
	runsSeen int
	active   map[string]bool   // a handed-out run of the task has not yet reached a terminal state
	tstate   map[string]string // last known state
	gated    bool
	changed  chan struct{}
	cancels  map[string]context.CancelFunc
	exitErr  map[string]string
	closed   bool
	inflight map[string]int // completion messages released but not yet received, per evaluation
}

func tsName(s TaskState) string { return s.String() }

func (h *c03Harness) note() {
	select {
	case h.changed <- struct{}{}:
	default:
	}
}

func isTerminal(s string) bool { return s == "OK" || s == "ERROR" || s == "LOST" }

// hook is installed as verifHook. Called at linearization points, under the lock protecting the
// state reported.
func (h *c03Harness) hook(ev string, args ...interface{}) {
	h.mu.Lock()
	if h.closed {
		h.mu.Unlock()
		return
	}
	r := vtr.Rec{"ev": ev, "tr": h.tr}
	var (
		e, t string
		gate chan struct{}
	)
	for _, a := range args {
		switch v := a.(type) {
		case *state:
			if n, ok := h.evals[v]; ok {
				e = n
			} else if ev == "EvalStart" {
				e = h.starting
				h.evals[v] = e
			} else {
				e = "?"
			}
			r["e"] = e
		case *Task:
			t = h.names[v]
			if t == "" {
				t = "?" + v.Name.String()
			}
			r["t"] = t
		}
	}
	if e == "?" || (len(t) > 0 && t[0] == '?') {
		// an evaluation or task this schedule does not know: a goroutine left over from an earlier schedule
		// (they can outlive their Eval); its events are not part of this trace
		h.mu.Unlock()
		return
	}
	switch ev {
	case "EvalStart":
		h.evStatus[e] = "busy"
	case "EvalRecv":
		h.evStatus[e] = "busy"
		if h.inflight[e] > 0 {
			h.inflight[e]--
		}
	case "EvalTop", "EvalReturn":
		h.evStatus[e] = "busy"
	case "EvalIdle":
		h.evStatus[e] = "idle"
	case "EvalExit":
		h.evStatus[e] = "exit"
		msg := ""
		if err, _ := args[1].(error); err != nil {
			msg = err.Error()
			if msg == "" {
				msg = "error"
			}
		}
		r["err"] = msg
		h.exitErr[e] = msg
	case "EvalSubmit":
		runner := args[2].(bool)
		st := tsName(args[3].(TaskState))
		r["runner"] = runner
		r["st"] = st
		h.tstate[t] = st
		h.waiters[e+"/"+t] = &c03Waiter{gate: make(chan struct{})}
		if runner {
			h.runsWant++
			h.active[t] = true
		}
	case "EvalWake":
		r["runner"] = args[2].(bool)
		r["st"] = tsName(args[3].(TaskState))
		msg := ""
		if err, _ := args[4].(error); err != nil {
			msg = err.Error()
		}
		r["err"] = msg
		if msg != "" {
			// context error: the goroutine goes to errc, never to the gate.
			delete(h.waiters, e+"/"+t)
		}
	case "EvalBook":
		st := tsName(args[2].(TaskState))
		r["st"] = st
		r["closs"] = args[3].(int)
		h.tstate[t] = st
	case "EvalPost":
		if w := h.waiters[e+"/"+t]; w != nil {
			w.atGate = true
			if h.gated && !w.release {
				gate = w.gate
			} else {
				delete(h.waiters, e+"/"+t)
				h.inflight[e]++
			}
		}
	case "TaskState":
		st := tsName(args[1].(TaskState))
		r["st"] = st
		h.tstate[t] = st
		if isTerminal(st) {
			h.active[t] = false
		}
	case "ExecRun":
		h.runsSeen++
	}
	h.w.Emit(r)
	h.mu.Unlock()
	h.note()
	if gate != nil {
		<-gate
	}
}

// quiescent: every started evaluation is idle or has exited, every expected ExecRun was seen, and
// every waiter goroutine whose task is in a terminal state has arrived at the gate.
func (h *c03Harness) quiescentLocked() bool {
	for e, s := range h.evStatus {
		if s == "busy" {
			return false
		}
		if s != "exit" && h.inflight[e] > 0 {
			return false
		}
	}
	if h.runsSeen < h.runsWant {
		return false
	}
	for k, w := range h.waiters {
		_ = k
		if !w.atGate && isTerminal(h.tstate[taskOfKey(k)]) {
			return false
		}
	}
	return true
}

func taskOfKey(k string) string {
	for i := len(k) - 1; i >= 0; i-- {
		if k[i] == '/' {
			return k[i+1:]
		}
	}
	return k
}

var c03StallTimeout = 20 * time.Second

func (h *c03Harness) settle(what string) bool {
	deadline := time.After(c03StallTimeout)
	for {
		h.mu.Lock()
		q := h.quiescentLocked()
		h.mu.Unlock()
		if q {
			return true
		}
		select {
		case <-h.changed:
		case <-time.After(50 * time.Millisecond):
		case <-deadline:
			h.mu.Lock()
			st := map[string]string{}
			for k, v := range h.evStatus {
				st[k] = v
			}
			h.w.Emit(vtr.Rec{"ev": "Stall", "tr": h.tr, "after": what, "evals": st})
			h.mu.Unlock()
			return false
		}
	}
}

func (h *c03Harness) apply(step []string) (applied bool) {
	switch step[0] {
	case "set", "err", "lose":
		t := step[1]
		task := h.tasks[t]
		h.mu.Lock()
		cur, act := h.tstate[t], h.active[t]
		h.mu.Unlock()
		want := ""
		if step[0] == "set" {
			want = step[2]
		}
		legal := false
		switch {
		case step[0] == "lose":
			legal = cur == "OK"
			want = "LOST"
		case step[0] == "err":
			legal = act && (cur == "WAITING" || cur == "RUNNING")
		case want == "RUNNING":
			legal = act && cur == "WAITING"
		case want == "OK":
			legal = act && cur == "RUNNING"
		case want == "LOST":
			legal = act && (cur == "WAITING" || cur == "RUNNING")
		}
		if !legal {
			return false
		}
		if step[0] == "err" {
			task.Error(errors.New("boom-" + t))
		} else {
			var s TaskState
			switch want {
			case "RUNNING":
				s = TaskRunning
			case "OK":
				s = TaskOk
			case "LOST":
				s = TaskLost
			}
			task.Set(s)
		}
		return true
	case "post":
		k := step[1] + "/" + step[2]
		h.mu.Lock()
		w := h.waiters[k]
		ok := w != nil && w.atGate
		if ok {
			delete(h.waiters, k)
			h.inflight[step[1]]++ // it will receive
		}
		h.mu.Unlock()
		if !ok {
			return false
		}
		close(w.gate)
		return true
	case "cancel":
		e := step[1]
		h.mu.Lock()
		c := h.cancels[e]
		st := h.evStatus[e]
		nw := 0
		for k := range h.waiters {
			if len(k) > len(e) && k[:len(e)+1] == e+"/" && !h.waiters[k].atGate {
				nw++
			}
		}
		if c != nil && st == "idle" && nw > 0 {
			h.evStatus[e] = "busy"
		} else {
			c = nil
		}
		h.mu.Unlock()
		if c == nil {
			return false
		}
		h.w.Emit(vtr.Rec{"ev": "Cancel", "tr": h.tr, "e": e})
		c()
		return true
	}
	return false
}

// applyT applies an environment step, giving up when it blocks: a step that sets a task's state needs the
// task's lock, and an evaluator goroutine that never releases it would otherwise block the harness forever.
func (h *c03Harness) applyT(st []string) (applied, blocked bool) {
	ch := make(chan bool, 1)
	go func() { ch <- h.apply(st) }()
	select {
	case a := <-ch:
		return a, false
	case <-time.After(c03StallTimeout):
		h.w.Emit(vtr.Rec{"ev": "Stall", "tr": h.tr, "after": "environment step blocked (a task lock is never released): " + fmt.Sprint(st), "evals": map[string]string{}})
		return false, true
	}
}

func runC03Sched(w *vtr.W, tr int, sc *c03Sched) (stalled bool) {
	h := &c03Harness{w: w, tr: tr, names: map[*Task]string{}, tasks: map[string]*Task{},
		evals: map[*state]string{}, evStatus: map[string]string{}, waiters: map[string]*c03Waiter{},
		active: map[string]bool{}, tstate: map[string]string{}, gated: !sc.Free,
		changed: make(chan struct{}, 1), inflight: map[string]int{}, cancels: map[string]context.CancelFunc{}, exitErr: map[string]string{}}
	for i, n := range sc.Tasks {
		t := &Task{Name: TaskName{Op: n, NumShard: 1, Shard: 0, InvIndex: uint64(i + 1)}}
		h.tasks[n] = t
		h.names[t] = n
	}
	for _, n := range sc.Tasks {
		t := h.tasks[n]
		for _, d := range sc.Deps[n] {
			t.Deps = append(t.Deps, TaskDep{Head: h.tasks[d]})
		}
		if ph := sc.Phase[n]; len(ph) > 1 {
			for _, p := range ph {
				t.Group = append(t.Group, h.tasks[p])
			}
		}
	}
	for _, n := range sc.Tasks {
		st := sc.Init[n]
		if st == "" {
			st = "INIT"
		}
		h.tstate[n] = st
		switch st {
		case "OK":
			h.tasks[n].state = TaskOk
		case "LOST":
			h.tasks[n].state = TaskLost
		case "ERROR":
			h.tasks[n].state = TaskErr
			h.tasks[n].err = errors.New("preset-" + n)
		}
	}
	w.Emit(vtr.Rec{"ev": "Begin", "tr": tr, "id": sc.ID, "tasks": sc.Tasks, "deps": sc.Deps,
		"phase": sc.Phase, "roots": sc.Roots, "init": h.copyStates(), "gated": h.gated})
	verifHook = h.hook
	defer func() { verifHook = nil }()
	var wg sync.WaitGroup
	start := func(e string) bool {
		h.mu.Lock()
		if _, started := h.evStatus[e]; started || len(sc.Roots[e]) == 0 {
			h.mu.Unlock()
			return false
		}
		h.starting = e
		h.evStatus[e] = "busy"
		ctx, cancel := context.WithCancel(context.Background())
		h.cancels[e] = cancel
		h.mu.Unlock()
		var roots []*Task
		for _, r := range sc.Roots[e] {
			roots = append(roots, h.tasks[r])
		}
		wg.Add(1)
		go func() {
			defer wg.Done()
			_ = Eval(ctx, c03Exec{h}, roots, nil)
		}()
		// wait until the EvalStart hook has bound the name
		for i := 0; i < 2000; i++ {
			h.mu.Lock()
			bound := false
			for _, n := range h.evals {
				if n == e {
					bound = true
				}
			}
			h.mu.Unlock()
			if bound {
				break
			}
			time.Sleep(100 * time.Microsecond)
		}
		return true
	}
	for i, st := range sc.Steps {
		var applied bool
		if st[0] == "start" {
			applied = start(st[1])
		} else {
			var blocked bool
			applied, blocked = h.applyT(st)
			if blocked {
				stalled = true
				break
			}
		}
		if !applied {
			w.Emit(vtr.Rec{"ev": "Skip", "tr": tr, "step": st, "i": i})
			continue
		}
		if !h.settle(fmt.Sprint(st)) {
			stalled = true
			break
		}
	}
	// Drain: no more losses or errors; everything handed out completes, all messages delivered.
	if !stalled {
		evs := make([]string, 0, len(sc.Roots))
		for e := range sc.Roots {
			evs = append(evs, e)
		}
		sort.Strings(evs)
		for _, e := range evs {
			if start(e) {
				if !h.settle("drain-start " + e) {
					stalled = true
				}
			}
		}
		for round := 0; round < 200 && !stalled; round++ {
			progress := false
			h.mu.Lock()
			var acts, gates []string
			for t, a := range h.active {
				if a {
					acts = append(acts, t)
				}
			}
			for k, wt := range h.waiters {
				if wt.atGate {
					gates = append(gates, k)
				}
			}
			allExit := true
			for _, s := range h.evStatus {
				if s != "exit" {
					allExit = false
				}
			}
			h.mu.Unlock()
			if allExit {
				break
			}
			sort.Strings(acts)
			sort.Strings(gates)
			for _, t := range acts {
				for _, s := range []string{"RUNNING", "OK"} {
					ok, blocked := h.applyT([]string{"set", t, s})
					if blocked {
						stalled = true
					}
					if ok {
						progress = true
						if !h.settle("drain set " + t + " " + s) {
							stalled = true
						}
					}
				}
			}
			for _, k := range gates {
				e := k[:len(k)-len(taskOfKey(k))-1]
				ok, blocked := h.applyT([]string{"post", e, taskOfKey(k)})
				if blocked {
					stalled = true
				}
				if ok {
					progress = true
					if !h.settle("drain post " + k) {
						stalled = true
					}
				}
			}
			if !progress {
				// nothing to do yet not all evaluations have exited: that is a hang.
				h.mu.Lock()
				st := map[string]string{}
				for k, v := range h.evStatus {
					st[k] = v
				}
				w.Emit(vtr.Rec{"ev": "Stall", "tr": tr, "after": "drain: no enabled environment step", "evals": st})
				h.mu.Unlock()
				stalled = true
			}
		}
	}
	// release everything so goroutines can finish; cancel contexts.
	h.mu.Lock()
	h.gated = false
	for k, wt := range h.waiters {
		wt.release = true
		if wt.atGate {
			close(wt.gate)
			delete(h.waiters, k)
		}
	}
	cs := h.cancels
	h.mu.Unlock()
	if stalled {
		for _, c := range cs {
			c()
		}
	}
	done := make(chan struct{})
	go func() { wg.Wait(); close(done) }()
	select {
	case <-done:
	case <-time.After(5 * time.Second):
		for _, c := range cs {
			c()
		}
		select {
		case <-done:
		case <-time.After(5 * time.Second):
		}
	}
	for _, c := range cs {
		c()
	}
	h.mu.Lock()
	w.Emit(vtr.Rec{"ev": "End", "tr": tr, "stalled": stalled, "exit": h.exitErr, "final": h.copyStates()})
	h.closed = true
	h.mu.Unlock()
	return stalled
}

func (h *c03Harness) copyStates() map[string]string {
	m := map[string]string{}
	for k, v := range h.tstate {
		m[k] = v
	}
	return m
}

// TestVerifC03 replays the schedules in $VERIF_SCHEDS and writes $VERIF_OUT/c03_traces.ndjson.
func TestVerifC03(t *testing.T) {
	path := os.Getenv("VERIF_SCHEDS")
	if path == "" {
		t.Skip("no schedules")
	}
	var scheds []*c03Sched
	vtr.ReadJSON(path, &scheds)
	w := vtr.Create("c03_traces.ndjson")
	defer w.Close()
	stalls := 0
	for i, sc := range scheds {
		if runC03Sched(w, i+1, sc) {
			stalls++
			if stalls == 6 {
				// stalls are already established; do not spend the full patience on every further schedule
				c03StallTimeout = 3 * time.Second
			}
		}
	}
	t.Logf("replayed %d schedules, %d stalled, %d records", len(scheds), stalls, w.N)
}

var _ = rand.Int
