package exec

// C05 harness (work copy only). For a list of keys of some column types and a shard count, records where every key
// is placed (a) by the default partitioner applied to frames and views of frames at various offsets, orders and
// chunkings, (b) end to end: rows seen per shard by a WriterFunc placed after a redistributing operator, for
// sources that spread the keys over producer tasks in different ways, on the local and bigmachine executors.
// specs/Placement.tla judges the recorded placements; the check runs this binary in two OS processes.

import (
	"context"
	"encoding/json"
	"fmt"
	"math/rand"
	"os"
	"reflect"
	"runtime/debug"
	"strconv"
	"strings"
	"sync"
	"testing"
	"time"

	"github.com/grailbio/bigmachine/testsystem"
	"github.com/grailbio/bigslice"
	"github.com/grailbio/bigslice/frame"
	"github.com/grailbio/bigslice/internal/vtr"
	"github.com/grailbio/bigslice/sliceio"
)

type c05Op struct {
	Op string `json:"op"` // reshuffle reshard repartition reduce fold cogroup
	A  int    `json:"a"`  // repartition: shard = (A*keyindex+B) mod n
	B  int    `json:"b"`
}

type c05Variant struct {
	Kind string `json:"kind"` // hash | e2e
	Seed int64  `json:"seed"`
	// hash
	Pad   int  `json:"pad"`
	Chunk int  `json:"chunk"`
	Dup   bool `json:"dup"`
	// e2e
	Exec     string  `json:"exec"`
	NSrc     int     `json:"nsrc"`
	Ops      []c05Op `json:"ops"`
	Batch    int     `json:"batch"`
	MachComb bool    `json:"machcomb"`
	Copies   int     `json:"copies"`
	Pfx      int     `json:"pfx"`   // key prefix the consumer sees (0: all key columns); narrower than the source's when < len(types)
	Reuse    bool    `json:"reuse"` // the source is the Result of an earlier invocation, consumed directly by the redistributing operators
	Par      int     `json:"par"`   // local executor: Parallelism(par), so that producer tasks run concurrently in one process
}

type c05Case struct {
	ID       int          `json:"id"`
	Types    []string     `json:"types"`
	NShard   int          `json:"nshard"`
	Keys     []string     `json:"keys"` // columns joined by "|" ; ignored if Exh
	Exh      bool         `json:"exh"`  // every value of the (single, 8- or 16-bit) key type
	Variants []c05Variant `json:"variants"`
}

var c05Types = map[string]reflect.Type{
	"int8": reflect.TypeOf(int8(0)), "uint8": reflect.TypeOf(uint8(0)), "int16": reflect.TypeOf(int16(0)), "uint16": reflect.TypeOf(uint16(0)),
	"int32": reflect.TypeOf(int32(0)), "uint32": reflect.TypeOf(uint32(0)), "int64": reflect.TypeOf(int64(0)), "uint64": reflect.TypeOf(uint64(0)),
	"int": reflect.TypeOf(int(0)), "uint": reflect.TypeOf(uint(0)), "uintptr": reflect.TypeOf(uintptr(0)),
	"float32": reflect.TypeOf(float32(0)), "float64": reflect.TypeOf(float64(0)),
	"string": reflect.TypeOf(""), "bytes": reflect.TypeOf([]byte(nil)), "bool": reflect.TypeOf(false),
}

func c05Parse(typ string, s string) reflect.Value {
	t := c05Types[typ]
	v := reflect.New(t).Elem()
	switch t.Kind() {
	case reflect.Int8, reflect.Int16, reflect.Int32, reflect.Int64, reflect.Int:
		x, err := strconv.ParseInt(s, 10, 64)
		if err != nil {
			panic(err)
		}
		v.SetInt(x)
	case reflect.Uint8, reflect.Uint16, reflect.Uint32, reflect.Uint64, reflect.Uint, reflect.Uintptr:
		x, err := strconv.ParseUint(s, 10, 64)
		if err != nil {
			panic(err)
		}
		v.SetUint(x)
	case reflect.Float32, reflect.Float64:
		x, err := strconv.ParseFloat(s, 64)
		if err != nil {
			panic(err)
		}
		v.SetFloat(x)
	case reflect.String:
		v.SetString(s)
	case reflect.Bool:
		v.SetBool(s == "true")
	case reflect.Slice:
		v.SetBytes([]byte(s))
	}
	return v
}

// c05ID is the identity of a key: equal key columns have the same identity.
func c05ID(cols []reflect.Value) string {
	var b strings.Builder
	for i, v := range cols {
		if i > 0 {
			b.WriteByte('|')
		}
		switch v.Kind() {
		case reflect.Float32, reflect.Float64:
			f := v.Float()
			if f == 0 {
				f = 0 // -0 == +0
			}
			b.WriteString(strconv.FormatFloat(f, 'g', -1, 64))
		case reflect.Slice:
			b.WriteString(strconv.Quote(string(v.Bytes())))
		case reflect.String:
			b.WriteString(strconv.Quote(v.String()))
		default:
			fmt.Fprint(&b, v.Interface())
		}
	}
	return b.String()
}

// c05Keys holds the keys of a case: per key the column values, and the index of the key's identity.
type c05Keys struct {
	types []reflect.Type
	vals  [][]reflect.Value // [key][col]
	ident []int             // [key] -> identity index (keys with equal columns share one)
	byID  map[string]int
	nid   int
}

func c05MakeKeys(c *c05Case) *c05Keys {
	k := &c05Keys{byID: map[string]int{}}
	for _, t := range c.Types {
		k.types = append(k.types, c05Types[t])
	}
	keys := c.Keys
	if c.Exh {
		keys = nil
		switch c.Types[0] {
		case "int8":
			for i := -128; i < 128; i++ {
				keys = append(keys, strconv.Itoa(i))
			}
		case "uint8":
			for i := 0; i < 256; i++ {
				keys = append(keys, strconv.Itoa(i))
			}
		case "int16":
			for i := -32768; i < 32768; i++ {
				keys = append(keys, strconv.Itoa(i))
			}
		case "uint16":
			for i := 0; i < 65536; i++ {
				keys = append(keys, strconv.Itoa(i))
			}
		case "bool":
			keys = []string{"false", "true"}
		default:
			panic("exh " + c.Types[0])
		}
	}
	for _, ks := range keys {
		parts := []string{ks}
		if len(c.Types) > 1 {
			parts = strings.SplitN(ks, "|", len(c.Types))
		}
		var vs []reflect.Value
		for i, p := range parts {
			vs = append(vs, c05Parse(c.Types[i], p))
		}
		id := c05ID(vs)
		ix, ok := k.byID[id]
		if !ok {
			ix = k.nid
			k.nid++
			k.byID[id] = ix
		}
		k.vals = append(k.vals, vs)
		k.ident = append(k.ident, ix)
	}
	return k
}

// columns builds column slices holding the keys rows[i] (an index into k.vals; -1 is a junk row).
func (k *c05Keys) columns(rows []int) []reflect.Value {
	cols := make([]reflect.Value, len(k.types))
	for c, t := range k.types {
		cols[c] = reflect.MakeSlice(reflect.SliceOf(t), len(rows), len(rows))
		for i, r := range rows {
			if r >= 0 {
				cols[c].Index(i).Set(k.vals[r][c])
			} else if len(k.vals) > 0 {
				cols[c].Index(i).Set(k.vals[(i*7+3)%len(k.vals)][c])
			}
		}
	}
	return cols
}

// groups returns, per identity, the identities that share its first pfx key columns (itself included).
func (k *c05Keys) groups(pfx int) [][]int {
	by := map[string][]int{}
	seen := map[int]bool{}
	for i, vs := range k.vals {
		id := k.ident[i]
		if seen[id] {
			continue
		}
		seen[id] = true
		g := c05ID(vs[:pfx])
		by[g] = append(by[g], id)
	}
	out := make([][]int, k.nid)
	for _, ids := range by {
		for _, id := range ids {
			out[id] = ids
		}
	}
	return out
}

type c05Place struct {
	place []int // per identity: shard, -1 not seen, -2 seen in several shards
	count []int // rows seen
}

func c05NewPlace(n int) *c05Place {
	p := &c05Place{place: make([]int, n), count: make([]int, n)}
	for i := range p.place {
		p.place[i] = -1
	}
	return p
}

func (p *c05Place) see(id, shard int) {
	switch {
	case p.place[id] == -1:
		p.place[id] = shard
	case p.place[id] != shard:
		p.place[id] = -2
	}
	p.count[id]++
}

func c05Hash(c *c05Case, k *c05Keys, v c05Variant) vtr.Rec {
	rng := rand.New(rand.NewSource(v.Seed))
	rows := []int{}
	for i := range k.vals {
		rows = append(rows, i)
		if v.Dup {
			rows = append(rows, i)
		}
	}
	rng.Shuffle(len(rows), func(i, j int) { rows[i], rows[j] = rows[j], rows[i] })
	pad := make([]int, v.Pad)
	for i := range pad {
		pad[i] = -1
	}
	rows = append(pad, rows...)
	mult := make([]int, k.nid)
	for _, r := range rows {
		if r >= 0 {
			mult[k.ident[r]]++
		}
	}
	f := frame.Values(k.columns(rows)).Prefixed(len(k.types))
	base := f.Slice(v.Pad, f.Len())
	p := c05NewPlace(k.nid)
	chunk := v.Chunk
	if chunk <= 0 {
		chunk = base.Len() + 1
	}
	shards := make([]int, chunk)
	for a := 0; a < base.Len(); a += chunk {
		b := a + chunk
		if b > base.Len() {
			b = base.Len()
		}
		defaultPartitioner(context.Background(), base.Slice(a, b), c.NShard, shards[:b-a])
		for i := a; i < b; i++ {
			p.see(k.ident[rows[v.Pad+i]], shards[i-a])
		}
	}
	return vtr.Rec{"kind": "hash", "op": "partitioner", "place": p.place, "count": p.count, "mult": mult, "want": []int{}, "keyed": true, "agg": false, "err": "", "n": c.NShard, "pfx": len(k.types), "reuse": false, "par": 0}
}

// ---- end to end

type c05Spec struct {
	Run   int        `json:"run"`
	Case  c05Case    `json:"case"`
	V     c05Variant `json:"v"`
	Rows  [][]int    `json:"rows"` // per source shard: key indexes in order
}

var (
	c05Mu   sync.Mutex
	c05Runs = map[int]*c05RunState{}
)

type c05RunState struct {
	keys   *c05Keys
	places []*c05Place
	bad    []string
}

func c05FuncOf(in, out []reflect.Type, impl func([]reflect.Value) []reflect.Value) interface{} {
	return reflect.MakeFunc(reflect.FuncOf(in, out, false), impl).Interface()
}

var (
	c05Int    = reflect.TypeOf(0)
	c05Ints   = reflect.TypeOf([]int(nil))
	c05Err    = reflect.TypeOf((*error)(nil)).Elem()
	c05Empty  = reflect.TypeOf(struct{}{})
	c05IntPtr = reflect.TypeOf((*int)(nil))
)

func c05ParseSpec(specJSON string) (*c05Spec, *c05Keys, *c05RunState) {
	var spec c05Spec
	if err := json.Unmarshal([]byte(specJSON), &spec); err != nil {
		panic(err)
	}
	k := c05MakeKeys(&spec.Case)
	c05Mu.Lock()
	st := c05Runs[spec.Run]
	c05Mu.Unlock()
	return &spec, k, st
}

func c05SliceOf(ts []reflect.Type) []reflect.Type {
	out := make([]reflect.Type, len(ts))
	for i, t := range ts {
		out[i] = reflect.SliceOf(t)
	}
	return out
}

var c05Func = bigslice.Func(func(specJSON string) bigslice.Slice {
	spec, k, st := c05ParseSpec(specJSON)
	return c05Tail(spec, k, st, c05Source(spec, k))
})

// two invocations: the source is computed as a Result of its own and handed to the consumer
var c05Stage1 = bigslice.Func(func(specJSON string) bigslice.Slice {
	spec, k, _ := c05ParseSpec(specJSON)
	return c05Source(spec, k)
})

var c05Stage2 = bigslice.Func(func(specJSON string, src bigslice.Slice) bigslice.Slice {
	spec, k, st := c05ParseSpec(specJSON)
	return c05Tail(spec, k, st, src)
})

func c05Source(spec *c05Spec, k *c05Keys) bigslice.Slice {
	nk := len(k.types)
	sliceOf := c05SliceOf
	batch := spec.V.Batch
	if batch <= 0 {
		batch = 7
	}
	// source: rows (key columns..., 1)
	rin := append([]reflect.Type{c05Int, c05IntPtr}, sliceOf(k.types)...)
	rin = append(rin, c05Ints)
	src := bigslice.ReaderFunc(spec.V.NSrc, c05FuncOf(rin, []reflect.Type{c05Int, c05Err}, func(args []reflect.Value) []reflect.Value {
		shard := int(args[0].Int())
		pos := args[1].Interface().(*int)
		rows := spec.Rows[shard]
		n := args[2].Len()
		if n > batch {
			n = batch
		}
		if n > len(rows)-*pos {
			n = len(rows) - *pos
		}
		cols := k.columns(rows[*pos : *pos+n])
		for c := range cols {
			reflect.Copy(args[2+c], cols[c])
		}
		for i := 0; i < n; i++ {
			args[2+nk].Index(i).SetInt(1)
		}
		*pos += n
		var err error
		if *pos == len(rows) {
			err = sliceio.EOF
		}
		ev := reflect.Zero(c05Err)
		if err != nil {
			ev = reflect.ValueOf(&err).Elem()
		}
		return []reflect.Value{reflect.ValueOf(n), ev}
	}))
	var s bigslice.Slice = src
	if nk > 1 {
		s = bigslice.Prefixed(s, nk)
	}
	return s
}

func c05Tail(spec *c05Spec, k *c05Keys, st *c05RunState, s bigslice.Slice) bigslice.Slice {
	nk := len(k.types)
	sliceOf := c05SliceOf
	pfx := spec.V.Pfx
	if pfx <= 0 || pfx > nk {
		pfx = nk
	}
	if pfx != nk {
		s = bigslice.Prefixed(s, pfx)
	}
	var groups [][]int
	if pfx != nk {
		groups = k.groups(pfx)
	}
	var branches []bigslice.Slice
	for bi, op := range spec.V.Ops {
		bi, op := bi, op
		var b bigslice.Slice
		valType := c05Int
		switch op.Op {
		case "reshuffle":
			b = bigslice.Reshuffle(s)
		case "reshard":
			b = bigslice.Reshard(s, spec.Case.NShard)
		case "repartition":
			pin := append([]reflect.Type{c05Int}, k.types...)
			pin = append(pin, c05Int)
			b = bigslice.Repartition(s, c05FuncOf(pin, []reflect.Type{c05Int}, func(args []reflect.Value) []reflect.Value {
				id := k.byID[c05ID(args[1:1+nk])]
				return []reflect.Value{reflect.ValueOf((op.A*id + op.B) % int(args[0].Int()))}
			}))
		case "reduce":
			b = bigslice.Reduce(s, func(a, b int) int { return a + b })
		case "fold":
			b = bigslice.Fold(s, func(a, v int) int { return a + v })
		case "cogroup":
			b = bigslice.Cogroup(s)
			valType = c05Ints
		default:
			panic(op.Op)
		}
		win := append([]reflect.Type{c05Int, c05Empty, c05Err}, sliceOf(k.types)...)
		win = append(win, reflect.SliceOf(valType))
		w := bigslice.WriterFunc(b, c05FuncOf(win, []reflect.Type{c05Err}, func(args []reflect.Value) []reflect.Value {
			shard := int(args[0].Int())
			n := args[3].Len()
			c05Mu.Lock()
			for i := 0; i < n; i++ {
				cols := make([]reflect.Value, nk)
				for c := range cols {
					cols[c] = args[3+c].Index(i)
				}
				id, ok := k.byID[c05ID(cols)]
				if !ok {
					st.bad = append(st.bad, fmt.Sprintf("branch %d shard %d: unknown key %s", bi, shard, c05ID(cols)))
					continue
				}
				if groups != nil && op.Op != "repartition" {
					// placement is by the first pfx columns: the row is an observation for every key that shares them
					for _, g := range groups[id] {
						st.places[bi].see(g, shard)
					}
					continue
				}
				st.places[bi].see(id, shard)
			}
			c05Mu.Unlock()
			return []reflect.Value{reflect.Zero(c05Err)}
		}))
		min := append(append([]reflect.Type{}, k.types...), valType)
		// (Map keeps the prefix of its input; reset it for the join below)
		branches = append(branches, bigslice.Prefixed(bigslice.Map(w, c05FuncOf(min, []reflect.Type{c05Int, c05Int}, func(args []reflect.Value) []reflect.Value {
			return []reflect.Value{reflect.ValueOf(0), reflect.ValueOf(1)}
		})), 1))
	}
	if len(branches) == 1 {
		return branches[0]
	}
	return bigslice.Cogroup(branches...)
}

var c05RunSeq int

func c05E2E(c *c05Case, k *c05Keys, v c05Variant) (out []vtr.Rec) {
	rng := rand.New(rand.NewSource(v.Seed))
	copies := v.Copies
	if copies <= 0 {
		copies = 1
	}
	rows := make([][]int, v.NSrc)
	for sh := range rows {
		rows[sh] = []int{}
	}
	mult := make([]int, k.nid)
	for i := range k.vals {
		for j := 0; j < copies; j++ {
			sh := rng.Intn(v.NSrc)
			rows[sh] = append(rows[sh], i)
			mult[k.ident[i]]++
		}
	}
	for _, r := range rows {
		rng.Shuffle(len(r), func(i, j int) { r[i], r[j] = r[j], r[i] })
	}
	c05RunSeq++
	st := &c05RunState{keys: k}
	for range v.Ops {
		st.places = append(st.places, c05NewPlace(k.nid))
	}
	c05Mu.Lock()
	c05Runs[c05RunSeq] = st
	c05Mu.Unlock()
	defer func() {
		c05Mu.Lock()
		delete(c05Runs, c05RunSeq)
		c05Mu.Unlock()
	}()
	cc := *c
	if !cc.Exh {
		cc.Keys = c.Keys
	}
	cc.Variants = nil
	spec, _ := json.Marshal(c05Spec{Run: c05RunSeq, Case: cc, V: v, Rows: rows})
	errs := ""
	func() {
		defer func() {
			if e := recover(); e != nil {
				errs = fmt.Sprint("panic: ", e, "\n", string(debug.Stack()))
			}
		}()
		var opts []Option
		if v.Exec == "bigmachine" {
			sys := testsystem.New()
			sys.Machineprocs = 2
			sys.KeepalivePeriod = time.Second
			sys.KeepaliveTimeout = 2 * time.Second
			sys.KeepaliveRpcTimeout = time.Second
			opts = append(opts, Bigmachine(sys), Parallelism(4))
			if v.MachComb {
				opts = append(opts, MachineCombiners)
			}
		} else {
			opts = append(opts, Local)
			if v.Par > 1 {
				opts = append(opts, Parallelism(v.Par))
			}
		}
		sess := Start(opts...)
		defer sess.Shutdown()
		ctx, cancel := context.WithTimeout(context.Background(), 120*time.Second)
		defer cancel()
		if v.Reuse {
			r1, err := sess.Run(ctx, c05Stage1, string(spec))
			if err != nil {
				errs = err.Error()
				return
			}
			if _, err := sess.Run(ctx, c05Stage2, string(spec), r1); err != nil {
				errs = err.Error()
			}
			return
		}
		if _, err := sess.Run(ctx, c05Func, string(spec)); err != nil {
			errs = err.Error()
		}
	}()
	c05Mu.Lock()
	defer c05Mu.Unlock()
	if errs == "" && len(st.bad) > 0 {
		errs = strings.Join(st.bad, "; ")
	}
	for bi, op := range v.Ops {
		want := []int{}
		n := v.NSrc
		if op.Op == "reshard" {
			n = c.NShard
		}
		if op.Op == "repartition" {
			for id := 0; id < k.nid; id++ {
				want = append(want, (op.A*id+op.B)%n)
			}
		}
		agg := op.Op == "reduce" || op.Op == "fold" || op.Op == "cogroup"
		pfx, m := len(k.types), mult
		if v.Pfx > 0 && v.Pfx < len(k.types) && op.Op != "repartition" {
			// placement by the first Pfx columns: a key stands for its group, fed as often as the group was
			pfx = v.Pfx
			m = make([]int, k.nid)
			for id, g := range k.groups(pfx) {
				for _, o := range g {
					m[id] += mult[o]
				}
			}
		}
		out = append(out, vtr.Rec{"kind": "e2e", "op": op.Op, "place": st.places[bi].place, "count": st.places[bi].count, "mult": m, "want": want,
			"keyed": op.Op != "repartition", "agg": agg, "err": errs, "n": n, "pfx": pfx, "reuse": v.Reuse, "par": v.Par})
	}
	return
}

func TestVerifC05(t *testing.T) {
	path := os.Getenv("VERIF_CASES")
	if path == "" {
		t.Skip("no cases")
	}
	var cases []*c05Case
	vtr.ReadJSON(path, &cases)
	w := vtr.Create("c05_records_" + os.Getenv("VERIF_PROC") + ".ndjson")
	defer w.Close()
	for _, c := range cases {
		rec := vtr.Rec{"id": c.ID, "nshard": c.NShard}
		func() {
			defer func() {
				if e := recover(); e != nil {
					rec["panic"] = fmt.Sprint(e)
				}
			}()
			k := c05MakeKeys(c)
			rec["nkeys"] = k.nid
			vs := []vtr.Rec{}
			for _, v := range c.Variants {
				if v.Kind == "hash" {
					vs = append(vs, c05Hash(c, k, v))
				} else {
					vs = append(vs, c05E2E(c, k, v)...)
				}
			}
			rec["variants"] = vs
		}()
		w.Put(rec)
	}
}
