package bigslice_test

// C17 / C10 harness (work copy only): drives the real readers of bigslice through read sessions
// described by $VERIF_CASES (kind, sources, upstream chunking, destination sizes, injected upstream
// error) and records, per Read call, what the reader did to the destination frame. The harness
// computes no expectation: TLC (specs/ReaderMon.tla) is the judge.

import (
	"bytes"
	"context"
	"errors"
	"fmt"
	"io/ioutil"
	"os"
	"reflect"
	"testing"

	"github.com/grailbio/bigslice"
	"github.com/grailbio/bigslice/frame"
	"github.com/grailbio/bigslice/internal/defaultsize"
	"github.com/grailbio/bigslice/internal/vtr"
	"github.com/grailbio/bigslice/slicefunc"
	"github.com/grailbio/bigslice/sliceio"
	"github.com/grailbio/bigslice/slicetype"
	"github.com/grailbio/bigslice/sortio"
)

type c17Case struct {
	ID      int       `json:"id"`
	Kind    string    `json:"kind"`
	NCol    int       `json:"ncol"`
	Srcs    [][][]int `json:"srcs"`   // sources; each a list of rows
	Chunks  []int     `json:"chunks"` // upstream chunk sizes, cycled; 0 = (0, nil) read
	EOFLast bool      `json:"eoflast"`
	Reads   []int     `json:"reads"` // destination sizes, cycled
	Param   int       `json:"param"`
	ErrAt   int       `json:"errat"`  // upstream read ordinal (1-based, over source 0) that fails; 0 = none
	Spill   int       `json:"spill"`  // sort spill target
	Canary  int       `json:"canary"` // sort canary rows (0 = default)
	Slack   int       `json:"slack"`  // destination frames are views with this much spare capacity behind them
}

var errC17Boom = errors.New("boom-upstream")

type c17Scripted struct {
	rows    frame.Frame
	pos     int
	chunks  []int
	ci      int
	eofLast bool
	errAt   int
	calls   int
	failed  bool
	eofSeen bool
}

func (s *c17Scripted) Read(ctx context.Context, out frame.Frame) (int, error) {
	if s.eofSeen {
		return 0, sliceio.EOF
	}
	s.calls++
	if s.failed || (s.errAt > 0 && s.calls == s.errAt) {
		s.failed = true
		return 0, errC17Boom
	}
	total := s.rows.Len()
	if s.pos == total {
		s.eofSeen = true
		return 0, sliceio.EOF
	}
	c := out.Len()
	if len(s.chunks) > 0 {
		c = s.chunks[s.ci%len(s.chunks)]
		s.ci++
	}
	n := c
	if out.Len() < n {
		n = out.Len()
	}
	if total-s.pos < n {
		n = total - s.pos
	}
	frame.Copy(out, s.rows.Slice(s.pos, s.pos+n))
	s.pos += n
	if s.pos == total && s.eofLast && n > 0 {
		s.eofSeen = true
		return n, sliceio.EOF
	}
	return n, nil
}

func (s *c17Scripted) Close() error { return nil }

func c17Frame(rows [][]int, ncol int) frame.Frame {
	cols := make([]interface{}, ncol)
	for c := 0; c < ncol; c++ {
		v := make([]int, len(rows))
		for i, r := range rows {
			v[i] = r[c]
		}
		cols[c] = v
	}
	return frame.Slices(cols...)
}

func c17Type(ncol int) slicetype.Type {
	ts := make([]reflect.Type, ncol)
	for i := range ts {
		ts[i] = reflect.TypeOf(int(0))
	}
	return slicetype.New(ts...)
}

func c17Rows(f frame.Frame, n int) [][]interface{} {
	out := make([][]interface{}, n)
	for i := 0; i < n; i++ {
		row := make([]interface{}, f.NumOut())
		for c := 0; c < f.NumOut(); c++ {
			v := f.Index(c, i)
			if v.Kind() == reflect.Slice {
				l := make([]int, v.Len())
				for k := range l {
					l[k] = int(v.Index(k).Int())
				}
				row[c] = l
			} else {
				row[c] = int(v.Int())
			}
		}
		out[i] = row
	}
	return out
}

const c17Sentinel = -1000

func c17Fill(f frame.Frame) {
	for c := 0; c < f.NumOut(); c++ {
		for i := 0; i < f.Len(); i++ {
			v := f.Index(c, i)
			if v.Kind() == reflect.Slice {
				v.Set(reflect.ValueOf([]int{c17Sentinel - i}))
			} else {
				v.SetInt(int64(c17Sentinel - i))
			}
		}
	}
}

func c17Src(c *c17Case, i int) *c17Scripted {
	s := &c17Scripted{rows: c17Frame(c.Srcs[i], c.NCol), chunks: c.Chunks, eofLast: c.EOFLast}
	if i == 0 {
		s.errAt = c.ErrAt
	}
	return s
}

func c17Slice(ncol int) bigslice.Slice {
	cols := make([]interface{}, ncol)
	for i := range cols {
		cols[i] = []int{}
	}
	return bigslice.Const(1, cols...)
}

// c17Build returns the reader under test and the type of its output rows.
func c17Build(ctx context.Context, c *c17Case, written *[][]interface{}, endc *int) (sliceio.Reader, slicetype.Type, error) {
	typ := c17Type(c.NCol)
	src0 := func() sliceio.Reader { return c17Src(c, 0) }
	base := c17Slice(c.NCol)
	switch c.Kind {
	case "multi":
		rs := make([]sliceio.ReadCloser, len(c.Srcs))
		for i := range rs {
			rs[i] = c17Src(c, i)
		}
		return sliceio.MultiReader(rs...), typ, nil
	case "frame":
		return sliceio.FrameReader(c17Frame(c.Srcs[0], c.NCol)), typ, nil
	case "decoding":
		var b bytes.Buffer
		enc := sliceio.NewEncodingWriter(&b)
		f := c17Frame(c.Srcs[0], c.NCol)
		pos, ci := 0, 0
		for pos < f.Len() || (pos == 0 && ci == 0) {
			n := f.Len() - pos
			if len(c.Chunks) > 0 {
				n = c.Chunks[ci%len(c.Chunks)]
				ci++
			}
			if n > f.Len()-pos {
				n = f.Len() - pos
			}
			if err := enc.Write(ctx, f.Slice(pos, pos+n)); err != nil {
				return nil, nil, err
			}
			pos += n
			if ci > 64 {
				break
			}
		}
		if pos < f.Len() {
			if err := enc.Write(ctx, f.Slice(pos, f.Len())); err != nil {
				return nil, nil, err
			}
		}
		return sliceio.NewDecodingReader(&b), typ, nil
	case "map":
		s := bigslice.Map(base, func(x int) (int, int) { return x, x*x + 1 })
		return s.Reader(0, []sliceio.Reader{src0()}), s, nil
	case "filter":
		s := bigslice.Filter(base, func(x int) bool { return x%3 != 0 })
		return s.Reader(0, []sliceio.Reader{src0()}), s, nil
	case "flatmap":
		s := bigslice.Flatmap(base, func(x int) []int {
			var out []int
			for j := 0; j < x%4; j++ {
				out = append(out, x+100*j)
			}
			return out
		})
		return s.Reader(0, []sliceio.Reader{src0()}), s, nil
	case "head":
		s := bigslice.Head(base, c.Param)
		return s.Reader(0, []sliceio.Reader{src0()}), s, nil
	case "prefixed":
		s := bigslice.Prefixed(base, c.NCol)
		return s.Reader(0, []sliceio.Reader{src0()}), s, nil
	case "writerfunc":
		s := bigslice.WriterFunc(base, func(shard int, st struct{}, err error, xs []int) error {
			for _, x := range xs {
				*written = append(*written, []interface{}{x})
			}
			if err != nil {
				*endc++
			}
			return nil
		})
		return s.Reader(0, []sliceio.Reader{src0()}), s, nil
	case "fold":
		s := bigslice.Fold(base, func(a int, v int) int { return a + v })
		return s.Reader(0, []sliceio.Reader{src0()}), s, nil
	case "cogroup":
		bs := make([]bigslice.Slice, len(c.Srcs))
		rs := make([]sliceio.Reader, len(c.Srcs))
		for i := range bs {
			bs[i] = base
			rs[i] = c17Src(c, i)
		}
		s := bigslice.Cogroup(bs...)
		return s.Reader(0, rs), s, nil
	case "reduce":
		rs := make([]sliceio.Reader, len(c.Srcs))
		for i := range rs {
			rs[i] = c17Src(c, i)
		}
		fn, _ := slicefunc.Of(func(a, b int) int { return a + b })
		return sortio.Reduce(typ, "c17", rs, fn), typ, nil
	case "merge":
		rs := make([]sliceio.Reader, len(c.Srcs))
		for i := range rs {
			rs[i] = c17Src(c, i)
		}
		r, err := sortio.NewMergeReader(ctx, typ, rs)
		return r, typ, err
	case "sort":
		spill := c.Spill
		if spill == 0 {
			spill = 1 << 20
		}
		if c.Canary > 0 {
			defer func(v int) { defaultsize.SortCanary = v }(defaultsize.SortCanary)
			defaultsize.SortCanary = c.Canary
		}
		if c.Param > 0 {
			defer func(v int) { sliceio.SpillBatchSize = v }(sliceio.SpillBatchSize)
			sliceio.SpillBatchSize = c.Param
		}
		r, err := sortio.SortReader(ctx, spill, typ, src0())
		return r, typ, err
	}
	return nil, nil, fmt.Errorf("unknown kind %q", c.Kind)
}

func c17Leftover(dir string) []string {
	out := []string{}
	es, _ := ioutil.ReadDir(dir)
	for _, e := range es {
		out = append(out, e.Name())
	}
	return out
}

func errName(err error) string {
	switch {
	case err == nil:
		return ""
	case err == sliceio.EOF:
		return "EOF"
	case err == errC17Boom || errors.Is(err, errC17Boom):
		return "boom"
	}
	if e := err.Error(); len(e) >= 4 && bytes.Contains([]byte(e), []byte("boom-upstream")) {
		return "boom"
	}
	return "other:" + err.Error()
}

func c17Run(ctx context.Context, c *c17Case) (rec vtr.Rec) {
	rec = vtr.Rec{"id": c.ID, "kind": c.Kind, "ncol": c.NCol, "srcs": c.Srcs, "param": c.Param,
		"errat": c.ErrAt, "chunks": c.Chunks, "eoflast": c.EOFLast}
	var reads []vtr.Rec
	defer func() {
		if e := recover(); e != nil {
			rec["panic"] = fmt.Sprint(e)
			if reads == nil {
				reads = []vtr.Rec{}
			}
			rec["reads"] = reads
			rec["retained"] = [][]interface{}{}
		}
	}()
	var (
		written [][]interface{}
		endc    int
	)
	if len(c.Kind) >= 4 && c.Kind[:4] == "scan" {
		reads = c17Scan(ctx, c)
		rec["reads"] = reads
		rec["retained"] = [][]interface{}{}
		return
	}
	var tmpd string
	if c.Kind == "sort" || c.Kind == "cogroup" {
		tmpd, _ = ioutil.TempDir("", "verifc10")
		oldTmp := os.Getenv("TMPDIR")
		os.Setenv("TMPDIR", tmpd)
		defer func() {
			os.Setenv("TMPDIR", oldTmp)
			os.RemoveAll(tmpd)
		}()
	}
	r, typ, err := c17Build(ctx, c, &written, &endc)
	if c.Kind == "sort" {
		// SortReader does all its spilling inside the constructor: nothing may be left behind
		rec["leftover"] = c17Leftover(tmpd)
	}
	if err != nil {
		rec["builderr"] = errName(err)
		rec["reads"] = []interface{}{}
		rec["retained"] = [][]interface{}{}
		return
	}
	var (
		kept     []frame.Frame
		keptN    []int
		after    = 0
		maxReads = 400
	)
	for _, src := range c.Srcs {
		maxReads += 5 * len(src)
	}
	for i := 0; i < maxReads; i++ {
		k := c.Reads[i%len(c.Reads)]
		// the destination is the first k rows of a frame with c.Slack further rows: a reader may use neither
		whole := frame.Make(typ, k+c.Slack, k+c.Slack)
		c17Fill(whole)
		dst := whole.Slice(0, k)
		n, err := r.Read(ctx, dst)
		en := errName(err)
		rr := vtr.Rec{"k": k, "n": n, "err": en, "dst": c17Rows(whole, k+c.Slack)}
		reads = append(reads, rr)
		if n > 0 && n <= k {
			kept = append(kept, dst)
			keptN = append(keptN, n)
		}
		if err != nil {
			after++
			if after >= 3 {
				break
			}
		}
	}
	var retained [][]interface{}
	for i, f := range kept {
		retained = append(retained, c17Rows(f, keptN[i])...)
	}
	if retained == nil {
		retained = [][]interface{}{}
	}
	rec["reads"] = reads
	rec["retained"] = retained
	if c.Kind == "cogroup" {
		rec["leftover"] = c17Leftover(tmpd)
	}
	if c.Kind == "writerfunc" {
		if written == nil {
			written = [][]interface{}{}
		}
		rec["written"] = written
		rec["endcalls"] = endc
	}
	return
}

// c17Scan drives a sliceio.Scanner over a scripted reader; every Scan call is recorded as a read of
// one row (k = 1).
func c17Scan(ctx context.Context, c *c17Case) (reads []vtr.Rec) {
	sc := sliceio.NewScanner(c17Type(c.NCol), c17Src(c, 0))
	defer sc.Close()
	after := 0
	for i := 0; i < 400+5*len(c.Srcs[0]); i++ {
		var (
			a, b int
			str  string
			ok   bool
			got  [][]interface{}
			n    int
		)
		switch c.Kind {
		case "scanner":
			if c.NCol == 1 {
				ok = sc.Scan(ctx, &a)
				got = [][]interface{}{{a}}
			} else {
				ok = sc.Scan(ctx, &a, &b)
				got = [][]interface{}{{a, b}}
			}
			if ok {
				n = 1
			} else {
				got = [][]interface{}{c17SentRow(c.NCol, 0)}
			}
		case "scanv":
			k := c.Reads[i%len(c.Reads)]
			av, bv := make([]int, k), make([]int, k)
			for j := range av {
				av[j], bv[j] = c17Sentinel-j, c17Sentinel-j
			}
			if c.NCol == 1 {
				n, ok = sc.Scanv(ctx, av)
			} else {
				n, ok = sc.Scanv(ctx, av, bv)
			}
			got = make([][]interface{}, k)
			for j := range got {
				if c.NCol == 1 {
					got[j] = []interface{}{av[j]}
				} else {
					got[j] = []interface{}{av[j], bv[j]}
				}
			}
			en := ""
			if !ok {
				en = "EOF"
				if err := sc.Err(); err != nil {
					en = errName(err)
				}
			}
			reads = append(reads, vtr.Rec{"k": k, "n": n, "err": en, "dst": got})
			if !ok {
				after++
				if after >= 3 {
					return
				}
			}
			continue
		case "scanner_arity", "scanner_type":
			if i < c.Param {
				// well-formed calls first; the ill-formed one comes after them
				if c.NCol == 1 {
					ok = sc.Scan(ctx, &a)
					got = [][]interface{}{{a}}
				} else {
					ok = sc.Scan(ctx, &a, &b)
					got = [][]interface{}{{a, b}}
				}
				if ok {
					n = 1
				} else {
					got = [][]interface{}{c17SentRow(c.NCol, 0)}
				}
				break
			}
			if c.Kind == "scanner_type" {
				if c.NCol == 1 {
					ok = sc.Scan(ctx, &str)
				} else {
					ok = sc.Scan(ctx, &a, &str)
				}
				got = [][]interface{}{c17SentRow(c.NCol, 0)}
				break
			}
			if c.NCol == 1 {
				ok = sc.Scan(ctx, &a, &b)
			} else {
				ok = sc.Scan(ctx, &a)
			}
			got = [][]interface{}{c17SentRow(c.NCol, 0)}
		}
		en := ""
		if !ok {
			en = "EOF"
			if err := sc.Err(); err != nil {
				en = errName(err)
				if _, isTC := err.(interface{ Error() string }); isTC && en != "boom" {
					en = "typeerr"
				}
			}
		}
		reads = append(reads, vtr.Rec{"k": 1, "n": n, "err": en, "dst": got})
		if !ok {
			after++
			if after >= 3 {
				return
			}
		}
	}
	return
}

func c17SentRow(ncol, j int) []interface{} {
	r := make([]interface{}, ncol)
	for i := range r {
		r[i] = c17Sentinel - j
	}
	return r
}

// TestVerifC17 runs the sessions of $VERIF_CASES and writes $VERIF_OUT/c17_records.ndjson.
func TestVerifC17(t *testing.T) {
	path := os.Getenv("VERIF_CASES")
	if path == "" {
		t.Skip("no cases")
	}
	var cases []*c17Case
	vtr.ReadJSON(path, &cases)
	w := vtr.Create("c17_records.ndjson")
	defer w.Close()
	ctx := context.Background()
	for _, c := range cases {
		w.Put(c17Run(ctx, c))
	}
	t.Logf("%d sessions", len(cases))
}
