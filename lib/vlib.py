#!/usr/bin/env python3
"""Engine shared by all checks (DESIGN.md §1, §2, §7).

 - WorkCopy: scratch copy of /repo's *working tree* + compat layer + injected harness files,
   `go test -tags verif` runner.
 - tlc(): run TLC on specs from /verif/specs in a scratch dir, parse its statistics.
 - Check: verdict bookkeeping (violations vs. known findings vs. inconclusive), evidence writer.

Exit codes: 0 held / only known findings; 1 VIOLATION (real-code behaviour rejected by a property
monitor); 2 inconclusive (tool failure, dead driver, missing hook, timeout).
"""
import contextlib
import hashlib
import json
import os
import re
import shutil
import subprocess
import sys
import time

V = '/verif'
OUT = os.environ.get('VERIF_OUT', V)    # evidence/ and replays/ go here (bin/vmatrix on a private clone redirects them)
REPO = os.environ.get('VERIF_REPO', '/repo')  # (an alternative tree is used only by bin/vmatrix on a private clone)
WORKROOT = '/root/.cache/verif-work'
GOENV = {'GOFLAGS': '-mod=mod', 'GOPROXY': 'off', 'GOSUMDB': 'off', 'GOTOOLCHAIN': 'local'}
NCPU = os.cpu_count() or 4


class Inconclusive(Exception):
    pass


def log(*a):
    print(*a, file=sys.stderr, flush=True)


def sh(cmd, cwd=None, env=None, timeout=None, check=True, capture=True):
    e = dict(os.environ)
    e.update(GOENV)
    if env:
        e.update({k: str(v) for k, v in env.items()})
    try:
        p = subprocess.run(cmd, cwd=cwd, env=e, timeout=timeout, shell=isinstance(cmd, str),
                           stdout=subprocess.PIPE if capture else None,
                           stderr=subprocess.STDOUT if capture else None, text=True, errors='replace')
    except subprocess.TimeoutExpired as ex:
        out = ex.stdout if isinstance(ex.stdout, str) else (ex.stdout or b'').decode('utf8', 'replace')
        raise Inconclusive('timeout after %ss: %s\n%s' % (timeout, cmd, (out or '')[-2000:]))
    if check and p.returncode != 0:
        raise Inconclusive('command failed (%d): %s\n%s' % (p.returncode, cmd, (p.stdout or '')[-4000:]))
    return p


def ensure_compat():
    for name in ('base', 'bigmachine'):
        if not os.path.exists('%s/compat/mod/%s/.verif-stamp' % (V, name)):
            sh([V + '/bin/vsetup'])
            return


class WorkCopy:
    """Scratch copy of /repo working tree with compat layer and harness injected."""

    def __init__(self, ident, harness=()):
        self.ident = ident
        self.root = '%s/%s.%d' % (WORKROOT, ident, os.getpid())
        self.src = self.root + '/src'
        self.harness = ['common'] + list(harness)

    def __enter__(self):
        ensure_compat()
        shutil.rmtree(self.root, ignore_errors=True)
        os.makedirs(self.src)
        os.makedirs(self.root + '/out')
        if os.environ.get('VERIF_FROM_HEAD'):
            # development aid only: /repo's committed HEAD instead of its working tree (used while a seeded change
            # is applied to the working tree by another process). Registered checks never set this.
            subprocess.run('git -C %s archive HEAD | tar -x -C %s' % (REPO, self.src), shell=True, check=True)
            for f in ('go.mod', 'go.sum'):
                shutil.copy(REPO + '/' + f, self.src + '/' + f)
        else:
            sh(['rsync', '-a', '--delete', '--exclude', '.git', REPO + '/', self.src + '/'])
        gm = open(self.src + '/go.mod').read()
        gm = re.sub(r'(?m)^go 1\.\d+\s*$', 'go 1.18', gm)
        gm += ('\nreplace github.com/grailbio/base => %s/compat/mod/base\n'
               'replace github.com/grailbio/bigmachine => %s/compat/mod/bigmachine\n' % (V, V))
        open(self.src + '/go.mod', 'w').write(gm)
        open(self.src + '/exec/config.go', 'w').write('package exec\n')
        for h in self.harness:
            d = '%s/harness/%s' % (V, h)
            if os.path.isdir(d):
                sh(['rsync', '-a', d + '/', self.src + '/'])
        return self

    def __exit__(self, *a):
        if os.environ.get('VERIF_KEEP'):
            log('keeping work copy', self.root)
            return False
        shutil.rmtree(self.root, ignore_errors=True)
        return False

    def out(self, name):
        return self.root + '/out/' + name

    def gotest(self, pkg, run, env=None, timeout=300, race=False, extra=(), check=True, count=1):
        """Run `go test -tags verif` in the work copy. Returns CompletedProcess (stdout+stderr)."""
        cmd = ['go', 'test', '-tags', 'verif', '-vet=off', '-count=%d' % count, '-run', run,
               '-timeout', '%ds' % timeout]
        if race:
            cmd += ['-race', '-gcflags=all=-d=checkptr=0']
        cmd += list(extra) + [pkg]
        os.makedirs(self.root + '/tmp', exist_ok=True)
        # temporary files of the code under test (spill files, invocation caches, stores) go under the work copy
        e = {'VERIF_OUT': self.root + '/out', 'VERIF_SEED': seed(), 'TMPDIR': self.root + '/tmp'}
        if env:
            e.update(env)
        p = sh(cmd, cwd=self.src, env=e, timeout=timeout + 120, check=False)
        if check and p.returncode != 0:
            if re.search(r'(?m)^(# |.*\[build failed\]|.*cannot find package|.*undefined: )', p.stdout or ''):
                raise Inconclusive('harness build failed:\n' + (p.stdout or '')[-4000:])
        return p

    def gobuild_test(self, pkg, outbin, race=False):
        cmd = ['go', 'test', '-tags', 'verif', '-vet=off', '-c', '-o', outbin]
        if race:
            cmd += ['-race', '-gcflags=all=-d=checkptr=0']
        cmd += [pkg]
        sh(cmd, cwd=self.src, timeout=900)
        return outbin


def seed():
    try:
        return int(os.environ.get('VERIF_SEED', '1'))
    except ValueError:
        return 1


# ------------------------------------------------------------------------------------------------
# TLC

class TLCResult:
    def __init__(self, out, rc, wall):
        self.out, self.rc, self.wall = out, rc, wall
        m = re.findall(r'(\d+) states generated, (\d+) distinct states found', out)
        self.generated = int(m[-1][0]) if m else 0
        self.distinct = int(m[-1][1]) if m else 0
        m = re.search(r'The depth of the complete state graph search is (\d+)', out)
        self.depth = int(m.group(1)) if m else 0
        self.ok = 'Model checking completed. No error has been found.' in out or \
                  ('Finished in' in out and 'Error:' not in out and rc == 0)
        self.violated = re.findall(r'Invariant (\S+) is violated', out) + \
            re.findall(r'Action property (\S+) is violated', out)
        if 'Temporal properties were violated' in out:
            self.violated.append('<temporal>')
        self.error = None
        m = re.search(r'Error: (.*)', out)
        if m:
            self.error = m.group(1)

    def coverage_zero(self):
        """names of actions never taken, from -coverage output."""
        z = []
        for m in re.finditer(r'<(\w+) line \d+, col \d+ to line \d+, col \d+ of module (\w+)>: (\d+):(\d+)', self.out):
            if m.group(3) == '0' and m.group(4) == '0':
                z.append(m.group(1))
        return sorted(set(z))


def tlc(workdir, module, cfg, files=None, workers=None, simulate=None, depth=None, extra=(),
        timeout=600, seedv=None, java_opts=None, deadlock=False, coverage=False):
    """Run TLC on /verif/specs/<module>.tla with /verif/specs/<cfg> in a scratch dir.
    files: dict name -> content/path copied into the scratch dir (trace files etc.)."""
    os.makedirs(workdir, exist_ok=True)
    for f in os.listdir(V + '/specs'):
        if f.endswith('.tla') or f.endswith('.cfg'):
            shutil.copy(V + '/specs/' + f, workdir + '/' + f)
    for name, src in (files or {}).items():
        dst = workdir + '/' + name
        if isinstance(src, str) and os.path.exists(src):
            if os.path.abspath(src) != os.path.abspath(dst):
                shutil.copy(src, dst)
        else:
            open(dst, 'w').write(src)
    meta = workdir + '/meta.' + module + '.' + str(time.time_ns())
    cmd = ['tlc', '-metadir', meta, '-config', cfg]
    if simulate:
        cmd += ['-simulate', simulate]
        if depth:
            cmd += ['-depth', str(depth)]
        cmd += ['-seed', str(seedv if seedv is not None else seed())]
    cmd += ['-workers', str(workers or 1)]
    if deadlock:
        cmd += ['-deadlock']
    if coverage:
        cmd += ['-coverage', '1']
    cmd += list(extra) + [module + '.tla']
    env = {}
    os.makedirs(workdir + '/jtmp', exist_ok=True)
    jo = '-Xss64m -Djava.io.tmpdir=%s/jtmp' % workdir
    if java_opts:
        jo += ' ' + java_opts
    env['JAVA_TOOL_OPTIONS'] = jo
    t0 = time.time()
    p = sh(cmd, cwd=workdir, env=env, timeout=timeout, check=False)
    shutil.rmtree(meta, ignore_errors=True)
    r = TLCResult(p.stdout or '', p.returncode, time.time() - t0)
    open(workdir + '/' + module + '.' + cfg + '.out', 'w').write(r.out)
    return r


def tlc_must_parse(r, what):
    if r.generated == 0 and 'states generated' not in r.out:
        raise Inconclusive('TLC did not run properly for %s:\n%s' % (what, r.out[-3000:]))
    if 'Parsing or semantic analysis failed' in r.out or 'Fatal errors while parsing' in r.out:
        raise Inconclusive('TLC parse error for %s:\n%s' % (what, r.out[-3000:]))


# ------------------------------------------------------------------------------------------------
# Verdicts

def load_known():
    p = V + '/known_findings.json'
    if not os.path.exists(p):
        return []
    return json.load(open(p)).get('findings', [])


def _sub(match, ident):
    for k, v in match.items():
        if k not in ident:
            return False
        iv = ident[k]
        if isinstance(v, list):
            if iv not in v:
                return False
        elif iv != v:
            return False
    return True


class Check:
    def __init__(self, pid, tier, level='model_checking'):
        self.pid, self.tier, self.level = pid, tier, level
        self.t0 = time.time()
        self.violations = []   # (ident, what, replay payload)
        self.known_hits = {}
        self.fixed_hits = []
        self.cov = {'states': 0, 'transitions': 0, 'traces_validated_against_impl': 0,
                    'samples': [], 'evaluations': 0, 'distinct_nontrivial': 0, 'rule': '',
                    'tlc_runs': [], 'drift': 0, 'vacuous_actions': [], 'binding_selftest': None}
        self.assumptions = []
        self.known = [k for k in load_known() if k.get('property') == pid]
        self.distinct = set()

    # --- coverage bookkeeping
    def add_tlc(self, name, r):
        self.cov['states'] += r.distinct
        self.cov['transitions'] += r.generated
        self.cov['tlc_runs'].append({'name': name, 'distinct': r.distinct, 'generated': r.generated,
                                     'depth': r.depth, 'wall_s': round(r.wall, 1)})

    def sample(self, s, cap=6):
        if len(self.cov['samples']) < cap:
            self.cov['samples'].append(s)

    def case(self, canon, nontrivial=True):
        self.cov['evaluations'] += 1
        if nontrivial:
            self.distinct.add(hashlib.sha1(json.dumps(canon, sort_keys=True, default=str).encode()).hexdigest())

    # --- verdicts
    def violation(self, ident, what, payload=None):
        """A property monitor rejected a recorded real-code behaviour."""
        for k in self.known:
            if _sub(k.get('match', {}), ident):
                if k.get('status') == 'known':
                    self.known_hits.setdefault(k['id'], [k, 0])
                    self.known_hits[k['id']][1] += 1
                    return 'known'
                # status fixed: suppresses nothing
        self.violations.append((ident, what, payload))
        return 'violation'

    def finish(self):
        wall = time.time() - self.t0
        self.cov['distinct_nontrivial'] = len(self.distinct)
        for kid, (k, n) in sorted(self.known_hits.items()):
            print('KNOWN-FINDING: property=%s %s [%s, %d occurrence(s)]' % (self.pid, k['what'], kid, n))
        groups = {}
        for ident, what, payload in self.violations:
            k = json.dumps(ident, sort_keys=True, default=str)
            groups.setdefault(k, []).append((ident, what, payload))
        for k, items in list(groups.items())[:40]:
            ident, what, payload = items[0]
            h = hashlib.sha1(k.encode()).hexdigest()[:12]
            d = '%s/replays/%s/%s' % (OUT, self.pid, h)
            os.makedirs(d, exist_ok=True)
            json.dump({'property': self.pid, 'ident': ident, 'what': what, 'payload': payload, 'occurrences': len(items),
                       'seed': seed(), 'tier': self.tier}, open(d + '/replay.json', 'w'), indent=1, default=str)
            print('VIOLATION property=%s replay=%s  # [%dx] %s' % (self.pid, d, len(items), what[:400]))
        self.cov['violation_groups'] = len(groups)
        ev = {'property_id': self.pid, 'tier': self.tier, 'seed': seed(), 'level': self.level,
              'coverage': self.cov, 'assumptions': self.assumptions, 'wall_s': round(wall, 1),
              'violations': len(self.violations),
              'known_findings_hit': {k: n for k, (_, n) in self.known_hits.items()}}
        os.makedirs(OUT + '/evidence', exist_ok=True)
        json.dump(ev, open('%s/evidence/%s.json' % (OUT, self.pid), 'w'), indent=1, default=str)
        log('%s %s: %d violation(s), %d known-finding id(s) hit, %.1fs' % (
            self.pid, self.tier, len(self.violations), len(self.known_hits), wall))
        return 1 if self.violations else 0


def judge(chk, wdir, name, module, cfg, infile_name, infile_path, verdict_name, timeout=1800, nrecs=None, java_opts=None):
    """Run a TLA+ monitor spec (module/cfg) over a recorded NDJSON file; return its verdict dict.
    The spec walks the records as a state machine and JsonSerializes [n, bad] when done."""
    d = '%s/%s' % (wdir, name)
    r = tlc(d, module, cfg, files={infile_name: infile_path}, workers=1, timeout=timeout, java_opts=java_opts)
    vp = d + '/' + verdict_name
    if not os.path.exists(vp):
        raise Inconclusive('%s produced no verdict:\n%s' % (module, r.out[-3000:]))
    chk.add_tlc(module + ' ' + name, r)
    v = json.load(open(vp))
    if nrecs is not None and v.get('n') != nrecs:
        raise Inconclusive('%s consumed %s of %s records' % (module, v.get('n'), nrecs))
    return v


TRUSTED = ['compat layer (DESIGN.md App. A): base v0.0.9 + bigmachine v0.5.8 add-only patches, go 1.18 lang, exec/config.go stub',
           'TLC 1.8.0 + CommunityModules (Json, IOUtils)', 'harness _test.go files injected into the work copy',
           'verif hooks in /repo (MANIFEST.hooks)']


def read_ndjson(path):
    out = []
    with open(path) as f:
        for line in f:
            line = line.strip()
            if line:
                out.append(json.loads(line))
    return out


def write_ndjson(path, recs):
    with open(path, 'w') as f:
        for r in recs:
            f.write(json.dumps(r, sort_keys=True) + '\n')


def warm():
    """setup: parse all specs, build the harness packages once to warm the Go build cache."""
    bad = 0
    tmp = WORKROOT + '/sany.%d' % os.getpid()
    os.makedirs(tmp, exist_ok=True)
    try:
        for f in sorted(os.listdir(V + '/specs')):
            if f.endswith('.tla'):
                shutil.copy(V + '/specs/' + f, tmp)
        for f in sorted(os.listdir(tmp)):
            p = sh(['tla-sany', f], cwd=tmp, check=False, timeout=120)
            if p.returncode != 0 or 'Semantic errors' in (p.stdout or '') or 'Fatal errors' in (p.stdout or ''):
                log('SANY failed for', f, (p.stdout or '')[-1500:])
                bad += 1
    finally:
        shutil.rmtree(tmp, ignore_errors=True)
    hs = [d for d in os.listdir(V + '/harness') if d != 'common']
    with WorkCopy('warm', harness=hs) as w:
        pk = '. ./exec/ ./frame/ ./sliceio/ ./sortio/ ./metrics/ ./internal/slicecache/ ./slicetest/ ./typecheck/ ./slicefunc/ ./slicetype/'
        p = sh('go test -tags verif -vet=off -count=1 -run XXX_none %s 2>&1 | tail -40' % pk, cwd=w.src,
               check=False, timeout=1800)
        log(p.stdout)
        if 'FAIL' in (p.stdout or ''):
            bad += 1
    if bad:
        sys.exit(1)


if __name__ == '__main__':
    if len(sys.argv) > 1 and sys.argv[1] == 'warm':
        warm()
