"""Program / scenario generation and execution shared by the session-level checks
(C01 C04 C05 C06 C12 C13 C19 C20). Programs are lists of nodes over the public operators with a
fixed <<k, v>> integer row schema (harness/prog); ProgMon.tla + Dataflow.tla judge."""
import json
import os
import random

import vlib
from vlib import Inconclusive


def N(op, **kw):
    d = {'op': op, 'in': [], 'f': '', 'n': 0, 'nshard': 0, 'rows': [], 'shards': [], 'batch': 0, 'arg': 0,
         'pragma': [], 'prefix': ''}
    d.update(kw)
    return d


def rows(rng, n, kmax=4, vmax=9):
    return [[rng.randrange(0, kmax), rng.randrange(0, vmax)] for _ in range(n)]


class Gen:
    """Random well-formed program generator. Tracks, per node, whether its value is exact+ordered
    ('eo'), otherwise fixed as a bag ('bag') or weak ('weak') so that only meaningful combinations are built."""

    def __init__(self, rng, big=False, nargs=0, argkinds=None, mid=False):
        self.rng, self.big, self.mid = rng, big, mid
        self.nodes, self.kind, self.nsh = [], [], []
        self.nargs, self.argkinds = nargs, argkinds or []

    def add(self, node, kind, nsh):
        self.nodes.append(node); self.kind.append(kind); self.nsh.append(nsh)
        return len(self.nodes) - 1

    def source(self):
        r = self.rng
        if self.nargs and r.random() < 0.6:
            a = r.randrange(0, self.nargs)
            return self.add(N('arg', arg=a), self.argkinds[a][0], self.argkinds[a][1])
        nsh = r.choice([1, 2, 3])
        n = r.choice([0, 1, 2, 4, 6, 9]) if not self.big else r.choice([127, 128, 129, 200, 257, 300])
        kmax = 4 if not self.big else 40
        if self.mid:
            n, kmax = r.choice([30, 41, 64, 90]), 12
        x = r.random()
        if x < 0.12:
            return self.add(N('scanreader', nshard=nsh, rows=rows(r, n, kmax)), 'bag', nsh)
        if x < 0.55:
            return self.add(N('const', nshard=nsh, rows=rows(r, n, kmax)), 'eo', nsh)
        shards = [rows(r, (r.choice([0, 1, 2, 3, 5]) if not self.mid else r.choice([0, 17, 33, 50])) if not self.big else r.choice([0, 100, 128, 130]), kmax) for _ in range(nsh)]
        return self.add(N('readerfunc', nshard=nsh, shards=shards, batch=r.choice([0, 1, 2, 3])), 'eo', nsh)

    def grow(self, i, allow_shuffle=True, last=False):
        r = self.rng
        k, nsh = self.kind[i], self.nsh[i]
        ops = ['map', 'filter', 'flatmap', 'writerfunc']
        if allow_shuffle and k != 'weak':
            ops += ['reduce', 'fold', 'reshuffle', 'repartition', 'reshard', 'cogroup']
        if k == 'eo' or last:
            ops += ['head']
        if k == 'weak':
            ops = ['map', 'filter', 'writerfunc']
        op = r.choice(ops)
        prag = []
        if op in ('map', 'filter', 'flatmap') and r.random() < 0.15:
            prag = [r.choice(['procs2', 'exclusive', 'materialize'])]
        if op == 'map':
            return self.add(N('map', **{'in': [i]}, f=r.choice(['inc', 'kmod', 'swap']), pragma=prag), k, nsh)
        if op == 'filter':
            return self.add(N('filter', **{'in': [i]}, f=r.choice(['even', 'knz']), pragma=prag), k, nsh)
        if op == 'flatmap':
            return self.add(N('flatmap', **{'in': [i]}, pragma=prag), k, nsh)
        if op == 'writerfunc':
            return self.add(N('writerfunc', **{'in': [i]}), k, nsh)
        if op == 'head':
            return self.add(N('head', **{'in': [i]}, n=r.choice([0, 1, 2, 3, 200])), 'eo' if k == 'eo' else 'weak', nsh)
        if op == 'reduce':
            return self.add(N('reduce', **{'in': [i]}, f=r.choice(['sum', 'max'])), 'bag', nsh)
        if op == 'fold':
            return self.add(N('fold', **{'in': [i]}), 'bag', nsh)
        if op == 'reshuffle':
            return self.add(N('reshuffle', **{'in': [i]}), 'bag', nsh)
        if op == 'repartition':
            return self.add(N('repartition', **{'in': [i]}), 'bag', nsh)
        if op == 'reshard':
            n = r.choice([1, 2, 3, 4])
            return self.add(N('reshard', **{'in': [i]}, n=n), k if n == nsh else 'bag', n)
        if op == 'cogroup':
            ins = [i]
            for _ in range(r.choice([0, 1, 1, 2])):
                cands = [j for j in range(len(self.nodes)) if self.kind[j] != 'weak' and j != i]
                if cands and r.random() < 0.5:
                    ins.append(r.choice(cands))
                else:
                    ins.append(self.source())
            return self.add(N('cogroup', **{'in': ins}), 'bag', max(self.nsh[j] for j in ins))

    def program(self, nops, taps='out'):
        i = self.source()
        for k in range(nops):
            i = self.grow(i, last=(k == nops - 1))
        tp = [i]
        ok = tappable(self.nodes, i)
        if taps == 'all':
            tp = [j for j in range(len(self.nodes)) if self.nodes[j]['op'] not in ('arg',)]
        elif taps == 'shuffles':
            tp = sorted(set([i] + [j for j in range(len(self.nodes)) if self.nodes[j]['op'] in
                                  ('reduce', 'fold', 'reshuffle', 'repartition', 'reshard', 'cogroup')]))
        tp = [j for j in tp if j in ok]
        return {'nodes': self.nodes, 'out': i, 'taps': tp}, (self.kind[i], self.nsh[i])


def tappable(nodes, out):
    """Nodes whose rows a tap observes exactly once: evaluated by exactly one pipeline (a pipelined
    sub-slice shared by several consumers is recomputed per consumer) and with no Head downstream in the
    same pipeline (Head stops reading early)."""
    n = len(nodes)
    mult = [0] * n
    mult[out] = 1
    headbelow = [False] * n
    for j in range(n - 1, -1, -1):
        for i in nodes[j]['in']:
            mult[i] += mult[j]
            if nodes[j]['op'] == 'head' or (headbelow[j] and nodes[j]['op'] in ('map', 'filter', 'flatmap', 'writerfunc', 'head', 'prefixed', 'scan')):
                headbelow[i] = True
    return {j for j in range(n) if mult[j] == 1 and not headbelow[j]}


def scenario(sid, steps, exec_='local', **cfg):
    d = {'id': sid, 'exec': exec_, 'parallelism': 0, 'maxload': 0, 'machcomb': False, 'machprocs': 0, 'chunk': 0,
         'canary': 0, 'spillbatch': 0, 'gomaxprocs': 0, 'steps': steps, 'timeout_s': 120, 'isolate': False}
    d.update(cfg)
    return d


def step_run(as_, prog, args=()):
    return {'do': 'run', 'as': as_, 'res': '', 'prog': prog, 'args': list(args)}


def step_scan(res):
    return {'do': 'scan', 'as': '', 'res': res, 'args': []}


def step_discard(res):
    return {'do': 'discard', 'as': '', 'res': res, 'args': []}


def step_par(groups):
    return {'do': 'par', 'as': '', 'res': '', 'args': [], 'steps': groups}


def execute(w, scenarios, workers=6, timeout=1500, race=False, tag='prog', env=None):
    """Run scenarios through the harness; return records (one per scenario, same order)."""
    json.dump(scenarios, open(w.out('%s_cases.json' % tag), 'w'))
    out = w.out('prog_records.ndjson')
    if os.path.exists(out):
        os.remove(out)
    e = {'VERIF_CASES': w.out('%s_cases.json' % tag), 'VERIF_WORKERS': workers}
    e.update(env or {})
    p = w.gotest('./verifprog/', 'TestVerifProg$', env=e, timeout=timeout, race=race)
    if p.returncode != 0 or not os.path.exists(out):
        raise Inconclusive('program harness failed:\n' + (p.stdout or '')[-4000:])
    recs = vlib.read_ndjson(out)
    if len(recs) != len(scenarios):
        raise Inconclusive('%d records for %d scenarios' % (len(recs), len(scenarios)))
    keep = w.out('%s_records.ndjson' % tag)
    os.replace(out, keep)
    return recs, keep


def judge(chk, w, recs_path, nrecs, name='progmon'):
    return vlib.judge(chk, w.root + '/tlc', name, 'ProgMon', 'ProgMon.cfg', 'prog_records.ndjson', recs_path,
                      'prog_verdict.json', nrecs=nrecs, timeout=2400)


def diamond_scenarios(rng, n, first_id):
    """r1; r2 = f(r1); r3 = g(r2); r4 = join(r1, r3) over 4 shards, in a session that must start three more machines
    for r4: the new machines receive the invocations r1..r4 from the executor and must get them in dependency order."""
    out = []
    for k in range(n):
        g1 = Gen(rng)
        a = g1.add(N('const', nshard=1, rows=rows(rng, 6, 4)), 'eo', 1)
        p1 = {'nodes': g1.nodes, 'out': a, 'taps': []}

        def over(argkinds, build):
            g = Gen(rng, nargs=len(argkinds), argkinds=argkinds)
            args = [g.add(N('arg', arg=x), argkinds[x][0], argkinds[x][1]) for x in range(len(argkinds))]
            return {'nodes': g.nodes, 'out': build(g, args), 'taps': []}
        p2 = over([('eo', 1)], lambda g, xs: g.add(N('map', **{'in': [xs[0]]}, f='inc'), 'eo', 1))
        p3 = over([('eo', 1)], lambda g, xs: g.add(N('map', **{'in': [xs[0]]}, f='kmod'), 'eo', 1))

        def join(g, xs):
            c = g.add(N('cogroup', **{'in': xs}), 'bag', 1)
            r_ = g.add(N('reshard', **{'in': [c]}, n=4), 'bag', 4)
            return g.add(N('map', **{'in': [r_]}, f='inc'), 'bag', 4)
        p4 = over([('eo', 1), ('eo', 1)], join)
        steps = [step_run('r1', p1), step_run('r2', p2, ['r1']), step_run('r3', p3, ['r2']),
                 step_run('r4', p4, ['r1', 'r3']), step_scan('r4')]
        out.append(scenario(first_id + k, steps, exec_='bigmachine', parallelism=4, machprocs=1, timeout_s=60))
    return out
