----------------------------- MODULE EvalTrace -----------------------------
(***************************************************************************)
(* Trace validation: the hook events recorded from the real exec.Eval are  *)
(* a behaviour of Eval.tla.  Each recorded event is matched with the action *)
(* of Eval.tla that stands for the same critical section of eval.go; what   *)
(* the event logged (task, state, runner flag, consecutive-loss count,      *)
(* result) is bound to the action's parameters and post-state, everything   *)
(* else (todo, pend, deps, counts, wait memo, ...) is inferred by the       *)
(* specification.  Several traces are concatenated; Begin resets the state  *)
(* to the trace's own graph and initial task states.                        *)
(*                                                                          *)
(*   EvalStart  Start(e)          EvalTop    Top(e)                         *)
(*   EvalSubmit SubmitOne(e,t)    EvalRecv   Recv(e,t)                      *)
(*   EvalBook   Wake(e,t)         EvalPost   Post(e,t)                      *)
(*   TaskState  ExecStart / ExecEnd / LoseOK (or the runner's own give-up,  *)
(*              which EvalBook's Wake accounts for)                         *)
(*   EvalExit   the evaluation has returned: pc = "done" with that result,  *)
(*              or CancelExit(e)                                            *)
(*   EvalIdle, EvalReturn, EvalWake, ExecRun, Skip, End: no abstract step   *)
(*                                                                          *)
(* The verdict of this module is conformance, not a property: a trace that  *)
(* cannot be matched means the code no longer follows the model (DRIFT),    *)
(* i.e. the exhaustive results for Eval.tla no longer speak for this tree.  *)
(* TLC records the highest position reached (TLCSet/TLCGet register 1).     *)
(***************************************************************************)
EXTENDS Eval, Json, IOUtils

Recs == ndJsonDeserialize("c03_traces.ndjson")
VARIABLE l
tvars == <<vars, l>>

NoShapes == {}
SetOf(q) == {q[j] : j \in DOMAIN q}
GraphOf(ev) == [tasks |-> SetOf(ev.tasks), phase |-> ev.phase, deps |-> ev.deps, roots |-> ev.roots]

ResetTo(ev) ==
  LET G == GraphOf(ev) IN
  /\ g' = G
  /\ tstate' = [t \in G.tasks |-> ev.init[t]]
  /\ losses' = 0 /\ errs' = 0
  /\ closs'  = [t \in G.tasks |-> 0]
  /\ active' = [t \in G.tasks |-> FALSE]
  /\ todo'   = [e \in DOMAIN G.roots |-> {}]
  /\ pend'   = [e \in DOMAIN G.roots |-> {}]
  /\ deps'   = [e \in DOMAIN G.roots |-> [t \in G.tasks |-> {}]]
  /\ counts' = [e \in DOMAIN G.roots |-> [t \in G.tasks |-> 0]]
  /\ wait'   = [e \in DOMAIN G.roots |-> [t \in G.tasks |-> -1]]
  /\ err'    = [e \in DOMAIN G.roots |-> "none"]
  /\ pc'     = [e \in DOMAIN G.roots |-> "new"]
  /\ donec'  = [e \in DOMAIN G.roots |-> {}]
  /\ waiter' = [e \in DOMAIN G.roots |-> [t \in G.tasks |-> "none"]]
  /\ batch'  = [e \in DOMAIN G.roots |-> {}]
  /\ res'    = [e \in DOMAIN G.roots |-> "none"]
  /\ okw'    = [e \in DOMAIN G.roots |-> {}]
  /\ lret'   = [e \in DOMAIN G.roots |-> {}]

TraceInit == /\ l = 1 /\ TLCSet(1, 0)
             /\ g = [tasks |-> {}, phase |-> <<>>, deps |-> <<>>, roots |-> <<>>]
             /\ tstate = <<>> /\ losses = 0 /\ errs = 0 /\ closs = <<>> /\ active = <<>>
             /\ todo = <<>> /\ pend = <<>> /\ deps = <<>> /\ counts = <<>> /\ wait = <<>> /\ err = <<>>
             /\ pc = <<>> /\ donec = <<>> /\ waiter = <<>> /\ batch = <<>> /\ res = <<>> /\ okw = <<>> /\ lret = <<>>

Stutter == UNCHANGED vars
Hist == UpdOkw /\ UpdLret

Match(ev) ==
  LET k == ev.ev IN
  CASE k = "Begin" -> ResetTo(ev)
    [] k = "EvalStart" -> Start(ev.e) /\ Hist
    [] k = "EvalTop" -> Top(ev.e) /\ Hist
    [] k = "EvalSubmit" ->
         /\ SubmitOne(ev.e, ev.t) /\ Hist
         /\ (waiter'[ev.e][ev.t] = "r") = ev.runner
         /\ tstate'[ev.t] = ev.st
    [] k = "EvalRecv" -> Recv(ev.e, ev.t) /\ Hist
    [] k = "EvalBook" ->
         \* only the runner logs its bookkeeping; a goroutine that woke because the evaluation is over
         \* (its context was cancelled) has nothing to account for
         IF pc[ev.e] = "done" \/ ev.st \notin Terminal THEN Stutter
         ELSE /\ waiter[ev.e][ev.t] = "r" /\ Wake(ev.e, ev.t) /\ Hist
              /\ tstate'[ev.t] = ev.st /\ closs'[ev.t] = ev.closs
    [] k = "EvalWake" ->
         \* a non-runner's wake-up has no EvalBook: its Wake step is taken here
         IF ev.runner \/ pc[ev.e] = "done" \/ ev.st \notin Terminal \/ ev.err # "" THEN Stutter
         ELSE waiter[ev.e][ev.t] = "n" /\ Wake(ev.e, ev.t) /\ Hist
    [] k = "EvalPost" -> IF pc[ev.e] = "done" THEN Stutter ELSE Post(ev.e, ev.t) /\ Hist
    [] k = "TaskState" ->
         \/ ev.st = "RUNNING" /\ ExecStart(ev.t) /\ Hist
         \/ ev.st \in Terminal /\ ExecEnd(ev.t, ev.st) /\ Hist
         \/ ev.st = "LOST" /\ LoseOK(ev.t) /\ Hist
         \* the runner's give-up (LOST -> ERROR after MaxLost consecutive losses) is broadcast just before
         \* its EvalBook, under the same lock; the Wake step of that EvalBook makes the change
         \/ /\ ev.st = "ERROR" /\ tstate[ev.t] = "LOST" /\ closs[ev.t] + 1 >= MaxLost
            /\ \E e \in Evals : waiter[e][ev.t] = "r"
            /\ Stutter
         \/ ev.st = tstate[ev.t] /\ Stutter
    [] k = "EvalExit" ->
         IF pc[ev.e] = "done" THEN (res[ev.e] = "ok") = (ev.err = "") /\ Stutter
         ELSE CancelExit(ev.e) /\ Hist
    [] OTHER -> Stutter

TraceNext == l <= Len(Recs) /\ Match(Recs[l]) /\ l' = l + 1
TraceSpec == TraceInit /\ [][TraceNext]_tvars

Progress == IF l > TLCGet(1) THEN TLCSet(1, l) ELSE TRUE
Done == JsonSerialize("c03_conf.json", [n |-> Len(Recs), reached |-> TLCGet(1) - 1])
=============================================================================
