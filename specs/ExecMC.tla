------------------------------ MODULE ExecMC ------------------------------
EXTENDS Exec
\* a producer and its consumer
T2 == {"a", "b"}
D2 == [t \in T2 |-> IF t = "b" THEN {"a"} ELSE {}]
R2 == {"b"}
\* two producers feeding one consumer (a shuffle)
T3 == {"a1", "a2", "b"}
D3 == [t \in T3 |-> IF t = "b" THEN {"a1", "a2"} ELSE {}]
R3 == {"b"}
NoFaulty == {}
Fb == {"b"}
Fa == {"a"}
M2 == {"m1", "m2"}
M3 == {"m1", "m2", "m3"}
=============================================================================
