SPECIFICATION Spec
CONSTANTS
 Threads = {t1, t2, t3}
 K = 2
INVARIANTS OneInstance NoLostIncrement
CHECK_DEADLOCK FALSE
