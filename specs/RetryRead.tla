----------------------------- MODULE RetryRead -----------------------------
(***************************************************************************)
(* retryReader (exec/bigmachine.go): a byte stream read through a          *)
(* connection that is re-opened at the current offset after any transient   *)
(* failure, giving up after more than `budget` consecutive failures (C15).  *)
(* State: delivered = number of bytes handed to the caller, opens = number  *)
(* of OpenAt calls seen so far, fails = consecutive failed attempts.        *)
(* Each recorded Read call is one step:                                     *)
(*   NoGapNoRepeat  the n bytes returned are stream[delivered+1 ..          *)
(*                  delivered+n]; every OpenAt made during the call asks    *)
(*                  for offset = delivered                                  *)
(*   Completes      EOF only when delivered = Len(stream)                   *)
(*   BoundedRetry   an error is returned only after budget+1 consecutive    *)
(*                  failed attempts, is returned then, and is sticky        *)
(***************************************************************************)
EXTENDS Integers, Sequences, TLC, Json, IOUtils

Recs == ndJsonDeserialize("c15_retry.ndjson")

VARIABLES s, i, delivered, opens, ended, dead, bad
vars == <<s, i, delivered, opens, ended, dead, bad>>

Init == s = 1 /\ i = 0 /\ delivered = 0 /\ opens = 0 /\ ended = "" /\ dead = FALSE /\ bad = <<>>
Begin == /\ s <= Len(Recs) /\ i = 0 /\ delivered' = 0 /\ opens' = 0 /\ ended' = "" /\ dead' = FALSE /\ i' = 1 /\ UNCHANGED <<s, bad>>

\* number of failure events in the plan that were consumed consecutively right before the reader gave up
Fail(r, what) == [id |-> r.id, step |-> i, what |-> what, budget |-> r.budget]

Step ==
  /\ s <= Len(Recs) /\ i >= 1 /\ i <= Len(Recs[s].steps)
  /\ LET r == Recs[s]
         st == r.steps[i]
         newOpens == SubSeq(r.opens, opens + 1, st.opens)
         offsOK == \A j \in DOMAIN newOpens : newOpens[j].off = delivered
         nOK == st.n >= 0 /\ st.n <= st.k
         dataOK == nOK /\ delivered + st.n <= Len(r.bytes) /\ st.data = SubSeq(r.bytes, delivered + 1, delivered + st.n)
         eofOK == st.err # "EOF" \/ delivered + st.n = Len(r.bytes)
         stickyOK == ended = "" \/ (st.n = 0 /\ st.err = ended)
         \* giving up: this call must itself have seen budget+1 failed attempts in a row (failed opens are
         \* visible in the open log; failed reads are the opens that were followed by another open)
         attempts == Len(newOpens) + (IF opens > 0 /\ ended = "" THEN 1 ELSE 0)
         giveupOK == st.err # "fail" \/ ended = "fail" \/ attempts >= r.budget + 1
         \* ... and it does give up then: a call that returned data (or EOF) made at most budget failed attempts
         \* before the one that succeeded
         persistOK == st.err \notin {"", "EOF"} \/ ended # "" \/ attempts - 1 <= r.budget
         what == IF ~nOK THEN "CountInRange"
                 ELSE IF ~offsOK THEN "ReopenAtDeliveredOffset"
                 ELSE IF ~dataOK THEN "NoGapNoRepeat"
                 ELSE IF ~eofOK THEN "EOFOnlyAtEnd"
                 ELSE IF ~stickyOK THEN "StickyEnd"
                 ELSE IF ~giveupOK THEN "FailsOnlyAfterBudget"
                 ELSE IF ~persistOK THEN "GivesUpWhenBudgetExhausted"
                 ELSE ""
     IN IF dead THEN UNCHANGED <<delivered, opens, ended, dead, bad>>
        ELSE /\ delivered' = IF nOK /\ ended = "" THEN delivered + st.n ELSE delivered
             /\ opens' = st.opens
             /\ ended' = IF ended = "" THEN st.err ELSE ended
             /\ dead' = (what # "")
             /\ bad' = IF what = "" THEN bad ELSE Append(bad, Fail(r, what))
  /\ i' = i + 1 /\ s' = s

End == /\ s <= Len(Recs) /\ i = Len(Recs[s].steps) + 1
       /\ LET r == Recs[s]
              f == IF "panic" \in DOMAIN r THEN <<Fail(r, "Panic")>>
                   ELSE IF dead THEN <<>>
                   ELSE IF ended = "EOF" THEN (IF delivered = Len(r.bytes) THEN <<>> ELSE <<Fail(r, "DeliversWholeStream")>>)
                   ELSE IF ended = "fail" THEN <<>>
                   ELSE <<Fail(r, "Terminates")>>
          IN bad' = bad \o f
       /\ s' = s + 1 /\ i' = 0 /\ UNCHANGED <<delivered, opens, ended, dead>>

Next == Begin \/ Step \/ End
Spec == Init /\ [][Next]_vars
Dump == s <= Len(Recs) \/ JsonSerialize("c15_retry_verdict.json", [n |-> Len(Recs), bad |-> bad])
=============================================================================
