----------------------------- MODULE WorkerMon -----------------------------
(***************************************************************************)
(* Monitor over recorded event sequences of the real worker.Run /           *)
(* worker.Discard of one task (harness/worker): start(r), enter(k),         *)
(* exit(k, outcome), cancel(r), return(r, err), discard, discarded.         *)
(* Same properties as the design model Worker.tla:                          *)
(*   OneExecution        no enter(k) while another execution is entered     *)
(*   NoRunDuringDiscard  no execution between discard and discarded         *)
(*   ReplyOk             return(r, "") only after some exit(k, "ok")        *)
(*   Returns             every started request returns                      *)
(***************************************************************************)
EXTENDS Integers, Sequences, FiniteSets, TLC, Json, IOUtils

Recs == ndJsonDeserialize("worker_records.ndjson")
VARIABLES s, i, inside, discarding, okruns, open, bad
vars == <<s, i, inside, discarding, okruns, open, bad>>

Fail(r, k, what) == [id |-> r.id, seq |-> k, what |-> what]
Init == s = 1 /\ i = 0 /\ inside = {} /\ discarding = FALSE /\ okruns = 0 /\ open = {} /\ bad = <<>>

Step ==
  /\ s <= Len(Recs) /\ ~("panic" \in DOMAIN Recs[s]) /\ i < Len(Recs[s].events)
  /\ LET r == Recs[s]  ev == r.events[i + 1]  e == ev.ev IN
     CASE e = "enter" ->
            /\ bad' = bad \o (IF inside = {} THEN <<>> ELSE <<Fail(r, ev.seq, "OneExecution")>>)
                          \o (IF ~discarding THEN <<>> ELSE <<Fail(r, ev.seq, "NoRunDuringDiscard")>>)
            /\ inside' = inside \cup {ev.k} /\ UNCHANGED <<discarding, okruns, open>>
       [] e = "exit" ->
            /\ inside' = inside \ {ev.k}
            /\ okruns' = IF ev.outcome = "ok" THEN okruns + 1 ELSE okruns
            /\ UNCHANGED <<discarding, open, bad>>
       [] e = "start" -> open' = open \cup {ev.r} /\ UNCHANGED <<inside, discarding, okruns, bad>>
       [] e = "return" ->
            /\ open' = open \ {ev.r}
            /\ bad' = IF ev.err = "" /\ okruns = 0 THEN Append(bad, Fail(r, ev.seq, "ReplyOk")) ELSE bad
            /\ UNCHANGED <<inside, discarding, okruns>>
       [] e = "discard" ->
            /\ discarding' = TRUE
            /\ bad' = IF inside = {} THEN bad ELSE bad  \* a Discard of a task that is not OK is a no-op
            /\ UNCHANGED <<inside, okruns, open>>
       [] e = "discarded" -> discarding' = FALSE /\ UNCHANGED <<inside, okruns, open, bad>>
       [] e = "stuck" -> bad' = Append(bad, Fail(r, ev.seq, "Returns")) /\ UNCHANGED <<inside, discarding, okruns, open>>
       [] OTHER -> UNCHANGED <<inside, discarding, okruns, open, bad>>
  /\ i' = i + 1 /\ s' = s

End ==
  /\ s <= Len(Recs) /\ ("panic" \in DOMAIN Recs[s] \/ i = Len(Recs[s].events))
  /\ bad' = IF "panic" \in DOMAIN Recs[s] THEN Append(bad, Fail(Recs[s], 0, "HarnessPanic"))
            ELSE IF open # {} THEN Append(bad, Fail(Recs[s], 0, "Returns")) ELSE bad
  /\ s' = s + 1 /\ i' = 0 /\ inside' = {} /\ discarding' = FALSE /\ okruns' = 0 /\ open' = {}

Next == Step \/ End
Spec == Init /\ [][Next]_vars
Dump == s <= Len(Recs) \/ JsonSerialize("worker_verdict.json", [n |-> Len(Recs), bad |-> bad])
=============================================================================
