SPECIFICATION GenSpec
CONSTANTS
 Shapes <- ShapesTwo
 MaxLost = 5
 LossBudget = 4
 ErrBudget = 1
 InitStates = {"INIT", "INIT", "OK", "LOST"}
 AllowCancel = FALSE
 FixErr = TRUE
 Depth = 60
 OutPrefix = "gen/b"
INVARIANTS DumpGen
CHECK_DEADLOCK FALSE
