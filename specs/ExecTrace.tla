----------------------------- MODULE ExecTrace -----------------------------
(***************************************************************************)
(* Trace validation: the hook events recorded from real sessions of the    *)
(* bigmachine executor (exec/bigmachine.go, exec/slicemachine.go, build    *)
(* tag verif; harness/c12x) are a behaviour of Exec.tla.                    *)
(*                                                                          *)
(*   EvalSubmit (runner)  Submit(t)   (the evaluator looked at the          *)
(*                        dependencies earlier: their states are not bound) *)
(*   BmGrant      Grant(t, m)         BmCall     Call(t) with the captured  *)
(*                                               dependency machines        *)
(*   BmReply      the outcome of Work(t), which is a silent step somewhere  *)
(*                between BmCall and BmReply (nil: done; err: failed, or    *)
(*                done and the reply lost with the machine)                 *)
(*   BmReply fatal  Work(t) of a task whose user code fails; TaskState ERROR then SetErr(t) *)
(*   BmSetLoc     SetLoc(t)           SmAssign   AssignOk(t) / Assign(t)    *)
(*                                               with the logged lost flag  *)
(*   TaskState OK    SetOk(t) (code as found) or no step (repaired code)    *)
(*   TaskState LOST  SetLost(t), MonitorMark(t), or no step when the model  *)
(*                   made the change with SmAssign / SmDiscard              *)
(*   SmLost       MonitorBegin(m) with exactly the logged set of tasks      *)
(*   BmDiscardClaim  DiscardClaim(t)  SmDiscard  DiscardDo(t) with the      *)
(*                                               logged ownership           *)
(*   HKill        the harness starts killing machine m: Kill(m) becomes     *)
(*                possible and is taken silently when the trace needs it;   *)
(*                likewise for a machine that its monitor later reports     *)
(*                lost (Begin.dies): under load a machine of the test       *)
(*                system can die by itself, of a lapsed keepalive           *)
(*                                                                          *)
(* The sessions are concatenated (Begin resets the state); task and         *)
(* machine names carry the session.  The verdict is conformance (DRIFT),    *)
(* never a violation by itself; the outcome clauses are ExecMon.tla's.      *)
(***************************************************************************)
EXTENDS Exec, Json, IOUtils

Recs == ndJsonDeserialize("c12x_conf.ndjson")
VARIABLES l, tokill, early
tvars == <<vars, l, tokill, early>>

SetOf(sq) == {sq[j] : j \in DOMAIN sq}
\* the first record lists the tasks (with their dependencies), roots and machines of all sessions
Hdr == Recs[1]
TTasks == SetOf(Hdr.tasks)
TDeps == [t \in TTasks |-> SetOf(Hdr.deps[t])]
TRoots == SetOf(Hdr.roots)
TMach == SetOf(Hdr.machs)
TFaulty == SetOf(Hdr.faulty)

ResetAll == /\ st' = [t \in Tasks |-> "INIT"] /\ loc' = [t \in Tasks |-> NoMach]
            /\ alive' = [m \in Mach |-> TRUE] /\ known' = [m \in Mach |-> FALSE]
            /\ store' = [m \in Mach |-> {}] /\ mtasks' = [m \in Mach |-> {}] /\ pendlost' = {}
            /\ run' = [t \in Tasks |-> Idle] /\ dis' = [t \in Tasks |-> "none"] /\ closs' = [t \in Tasks |-> 0]
            /\ kills' = 0 /\ discards' = 0

TraceInit == Init /\ l = 1 /\ tokill = {} /\ early = {} /\ TLCSet(1, 0)

Stutter == UNCHANGED vars

\* the evaluator's hand-off, without the (earlier) look at the dependencies
TSubmit(t) == /\ st[t] \in {"INIT", "LOST"} /\ run[t].pc = "idle"
              /\ st' = [st EXCEPT ![t] = "WAITING"]
              /\ run' = [run EXCEPT ![t] = [Idle EXCEPT !.pc = "start"]]
              /\ UNCHANGED <<loc, alive, known, store, mtasks, pendlost, dis, closs, kills, discards>>
\* the manager's view of a machine's health is its own (Cluster.tla): not bound here
TGrant(t, m) == /\ run[t].pc = "start"
                /\ run' = [run EXCEPT ![t] = [pc |-> "granted", m |-> m, locs |-> <<>>]]
                /\ UNCHANGED <<st, loc, alive, known, store, mtasks, pendlost, dis, closs, kills, discards>>
\* the evaluator starts the executor goroutine before it logs the hand-off, so the grant can be logged first:
\* hand-off and grant in one step; the EvalSubmit that follows for this task is then no step
TSubmitGrant(t, m) == /\ st[t] \in {"INIT", "LOST"} /\ run[t].pc = "idle"
                      /\ st' = [st EXCEPT ![t] = "WAITING"]
                      /\ run' = [run EXCEPT ![t] = [pc |-> "granted", m |-> m, locs |-> <<>>]]
                      /\ UNCHANGED <<loc, alive, known, store, mtasks, pendlost, dis, closs, kills, discards>>

Match(ev) ==
  LET k == ev.ev IN
  CASE k = "Begin" -> ResetAll /\ tokill' = SetOf(ev.dies) /\ early' = {}
    [] k = "EvalSubmit" ->
         /\ UNCHANGED tokill
         /\ IF ~ev.runner THEN Stutter /\ UNCHANGED early
            ELSE IF ev.t \in early THEN Stutter /\ early' = early \ {ev.t}
            ELSE TSubmit(ev.t) /\ UNCHANGED early
    [] k = "BmGrant" ->
         /\ UNCHANGED tokill
         /\ IF run[ev.t].pc = "start" THEN TGrant(ev.t, ev.m) /\ UNCHANGED early
            ELSE TSubmitGrant(ev.t, ev.m) /\ early' = early \cup {ev.t}
    [] k = "BmCall" ->
         /\ run[ev.t].m = ev.m /\ Call(ev.t) /\ run'[ev.t].pc = "called"
         /\ {run'[ev.t].locs[d] : d \in Deps[ev.t]} = SetOf(ev.machines) /\ UNCHANGED <<tokill, early>>
    [] k = "BmReply" ->
         \* the worker ran the task at some point between the call and this reply (the silent step Work below)
         /\ run[ev.t].m = ev.m /\ UNCHANGED <<tokill, early>>
         /\ CASE ev.err = "nil" -> run[ev.t].pc = "done" /\ Stutter
              [] ev.err = "fatal" -> run[ev.t].pc = "fatal" /\ Stutter
              [] OTHER -> \/ run[ev.t].pc = "fail" /\ Stutter
                          \/ ReplyLost(ev.t)
    [] k = "BmSetLoc" -> run[ev.t].m = ev.m /\ SetLoc(ev.t) /\ UNCHANGED <<tokill, early>>
    [] k = "SmAssign" ->
         /\ run[ev.t].m = ev.m /\ known[ev.m] = ev.lost
         /\ (AssignOk(ev.t) \/ Assign(ev.t)) /\ UNCHANGED <<tokill, early>>
    [] k = "TaskState" ->
         /\ UNCHANGED <<tokill, early>>
         /\ CASE ev.st = "OK" -> IF Atomic THEN Stutter ELSE (SetOk(ev.t) \/ (st[ev.t] = "OK" /\ Stutter))
              [] ev.st = "LOST" -> \/ SetLost(ev.t)
                                   \/ MonitorMark(ev.t)
                                   \/ st[ev.t] = "LOST" /\ run[ev.t].pc \notin {"fail", "granted"} /\ ev.t \notin pendlost /\ Stutter
              [] ev.st = "ERROR" -> IF run[ev.t].pc = "fatal" THEN SetErr(ev.t) ELSE Stutter
              [] OTHER -> Stutter
    [] k = "SmLost" -> MonitorBegin(ev.m) /\ mtasks[ev.m] = SetOf(ev.tasks) /\ UNCHANGED <<tokill, early>>
    [] k = "BmDiscardClaim" -> DiscardClaim(ev.t) /\ UNCHANGED <<tokill, early>>
    [] k = "SmDiscard" ->
         /\ loc[ev.t] = ev.m /\ (ev.t \in mtasks[ev.m]) = ev.owned
         /\ DiscardDo(ev.t) /\ UNCHANGED <<tokill, early>>
    [] k = "HKill" -> Stutter /\ tokill' = tokill \cup {ev.m} /\ UNCHANGED early
    [] OTHER -> Stutter /\ UNCHANGED <<tokill, early>>

Consume == l <= Len(Recs) /\ Match(Recs[l]) /\ l' = l + 1
\* a machine the harness is killing dies at some point after the kill was started
\* ... and the worker's own step is not logged by the driver: it happens between BmCall and BmReply
Silent == \/ \E m \in tokill : Kill(m) /\ tokill' = tokill \ {m} /\ l' = l /\ UNCHANGED early
          \/ \E t \in Tasks : run[t].pc = "called" /\ Work(t) /\ l' = l /\ UNCHANGED <<tokill, early>>
TraceNext == Consume \/ Silent
TraceSpec == TraceInit /\ [][TraceNext]_tvars

Progress == IF l > TLCGet(1) THEN TLCSet(1, l) ELSE TRUE
DoneOut == JsonSerialize("c12x_conf.json", [n |-> Len(Recs), reached |-> TLCGet(1) - 1])
=============================================================================
