-------------------------------- MODULE Exec --------------------------------
(***************************************************************************)
(* The distributed executor's handling of one task graph on a cluster      *)
(* whose machines can be lost (exec/bigmachine.go bigmachineExecutor.Run,  *)
(* Discard, location map; exec/slicemachine.go sliceMachine.Assign,        *)
(* Discard, Go).  One action per step of the code that reads or writes     *)
(* state shared between goroutines:                                        *)
(*                                                                          *)
(*   the executor goroutine of a submitted task (Run):                      *)
(*     Grant    a machine is received from the manager's offer              *)
(*     Call     dependency locations are captured into the request,         *)
(*              task.Set(TaskRunning), Worker.Run is issued                 *)
(*     Work     the worker runs the task: reads every dependency from the   *)
(*              captured machine, commits the output to its store           *)
(*     ReplyLost the reply of a completed run is lost with the machine      *)
(*     SetLoc   b.setLocation(task, m)                                      *)
(*     SetOk    task.Set(TaskOk)                                            *)
(*     Assign   m.Assign(task): register the task with the machine, or mark *)
(*              it LOST if the machine is already known to be lost          *)
(*     AssignOk (repaired code) SetOk and Assign as one step under the      *)
(*              machine's lock                                              *)
(*     SetErr   a fatal error of the task's user code: task.Error(err)      *)
(*     SetLost  any non-fatal failure (of the run, or of compiling the      *)
(*              invocation on a machine that is gone): task.Set(TaskLost)   *)
(*   the machine monitor (sliceMachine.Go), two steps because the code      *)
(*   releases the machine's lock before it marks the tasks:                 *)
(*     MonitorBegin  lost := true; tasks := s.tasks; s.tasks = nil          *)
(*     MonitorMark   task.Set(TaskLost) for one of those tasks              *)
(*   Discard of a task (bigmachineExecutor.Discard, sliceMachine.Discard):  *)
(*     DiscardClaim  under the task lock: OK -> RUNNING                     *)
(*     DiscardDo     under the machine lock: if the machine owns the task,  *)
(*                   unassign it, Worker.Discard, task.Set(TaskLost);       *)
(*                   otherwise return (repaired: undo the claim)            *)
(*   the evaluator, abstracted (its own model is Eval.tla):                 *)
(*     Submit   a needed task in INIT/LOST whose dependencies are all OK is  *)
(*              handed to the executor (state WAITING)                      *)
(*   the environment: Kill(m).                                              *)
(*                                                                          *)
(* Properties (C02, C12, C19): a task that is RUNNING always has someone    *)
(* who will change its state (no evaluation can be wedged waiting for it);  *)
(* a task that is OK is registered with the machine that holds its output   *)
(* (so the loss of the machine is noticed) or is about to be; a worker      *)
(* reads only committed outputs; when kills and discards stop, every root   *)
(* becomes OK or a task fails.                                              *)
(***************************************************************************)
EXTENDS Integers, FiniteSets, Sequences, TLC

CONSTANTS Tasks, Deps, Roots,   \* the task graph: Deps \in [Tasks -> SUBSET Tasks]
          Faulty,               \* tasks whose user code fails persistently (a fatal error, never retried)
          Mach,                 \* machines that can ever exist
          MaxKills, MaxDiscards, MaxLost,
          Variant               \* how a completed task is marked OK and registered with its machine:
                                \*  "asfound"     task.Set(TaskOk), then m.Assign(task); a Discard that finds the machine
                                \*                does not own the task returns, leaving the task RUNNING
                                \*  "atomic"      (repaired code) Assign marks the task OK itself, under the machine's lock
                                \*  "restore"     (a repair that does not work) as found, but such a Discard puts a task
                                \*                that is still RUNNING back to OK
                                \*  "assignfirst" (a seeded change) m.Assign(task), then task.Set(TaskOk)

AssignFirst == Variant = "assignfirst"
DiscardRestores == Variant = "restore"
Atomic == Variant = "atomic"

NoMach == "none"
States == {"INIT", "WAITING", "RUNNING", "OK", "LOST", "ERR"}

VARIABLES st, loc, alive, known, store, mtasks, pendlost, run, dis, closs, kills, discards
vars == <<st, loc, alive, known, store, mtasks, pendlost, run, dis, closs, kills, discards>>

Idle == [pc |-> "idle", m |-> NoMach, locs |-> <<>>]

Init == /\ st = [t \in Tasks |-> "INIT"]
        /\ loc = [t \in Tasks |-> NoMach]
        /\ alive = [m \in Mach |-> TRUE]
        /\ known = [m \in Mach |-> FALSE]
        /\ store = [m \in Mach |-> {}]
        /\ mtasks = [m \in Mach |-> {}]
        /\ pendlost = {}
        /\ run = [t \in Tasks |-> Idle]
        /\ dis = [t \in Tasks |-> "none"]
        /\ closs = [t \in Tasks |-> 0]
        /\ kills = 0 /\ discards = 0

RECURSIVE Needed(_)
Needed(t) == t \in Roots \/ \E c \in Tasks : t \in Deps[c] /\ st[c] # "OK" /\ Needed(c)

(* evaluator *)
Submit(t) == /\ st[t] \in {"INIT", "LOST"} /\ run[t].pc = "idle" /\ Needed(t)
             /\ \A d \in Deps[t] : st[d] = "OK"
             /\ \A x \in Tasks : st[x] # "ERR"
             /\ st' = [st EXCEPT ![t] = "WAITING"]
             /\ run' = [run EXCEPT ![t] = [Idle EXCEPT !.pc = "start"]]
             /\ UNCHANGED <<loc, alive, known, store, mtasks, pendlost, dis, closs, kills, discards>>

(* executor goroutine *)
Grant(t, m) == /\ run[t].pc = "start" /\ ~known[m]
               /\ run' = [run EXCEPT ![t] = [pc |-> "granted", m |-> m, locs |-> <<>>]]
               /\ UNCHANGED <<st, loc, alive, known, store, mtasks, pendlost, dis, closs, kills, discards>>

Call(t) == /\ run[t].pc = "granted"
           /\ IF \E d \in Deps[t] : loc[d] = NoMach
              THEN /\ st' = [st EXCEPT ![t] = "ERR"] /\ run' = [run EXCEPT ![t] = Idle]
              ELSE /\ st' = [st EXCEPT ![t] = "RUNNING"]
                   /\ run' = [run EXCEPT ![t] = [pc |-> "called", m |-> run[t].m, locs |-> [d \in Deps[t] |-> loc[d]]]]
           /\ UNCHANGED <<loc, alive, known, store, mtasks, pendlost, dis, closs, kills, discards>>

Readable(t) == \A d \in Deps[t] : alive[run[t].locs[d]] /\ d \in store[run[t].locs[d]]

Work(t) == /\ run[t].pc = "called"
           /\ LET m == run[t].m IN
              IF alive[m] /\ Readable(t) /\ t \in Faulty
              THEN /\ run' = [run EXCEPT ![t].pc = "fatal"] /\ UNCHANGED store
              ELSE IF alive[m] /\ Readable(t)
              THEN /\ store' = [store EXCEPT ![m] = @ \cup {t}]
                   /\ run' = [run EXCEPT ![t].pc = "done"]
              ELSE /\ run' = [run EXCEPT ![t].pc = "fail"] /\ UNCHANGED store
           /\ UNCHANGED <<st, loc, alive, known, mtasks, pendlost, dis, closs, kills, discards>>

ReplyLost(t) == /\ run[t].pc = "done" /\ ~alive[run[t].m]
                /\ run' = [run EXCEPT ![t].pc = "fail"]
                /\ UNCHANGED <<st, loc, alive, known, store, mtasks, pendlost, dis, closs, kills, discards>>

SetLoc(t) == /\ run[t].pc = "done"
             /\ loc' = [loc EXCEPT ![t] = run[t].m]
             /\ run' = [run EXCEPT ![t].pc = "located"]
             /\ UNCHANGED <<st, alive, known, store, mtasks, pendlost, dis, closs, kills, discards>>

DoSetOk(t, next) == /\ st' = [st EXCEPT ![t] = "OK"] /\ closs' = [closs EXCEPT ![t] = 0]
                    /\ run' = [run EXCEPT ![t] = IF next = "idle" THEN Idle ELSE [@ EXCEPT !.pc = next]]
                    /\ UNCHANGED <<loc, alive, known, store, mtasks, pendlost, dis, kills, discards>>

DoAssign(t, next) == LET m == run[t].m IN
                     /\ IF known[m] THEN st' = [st EXCEPT ![t] = "LOST"] /\ UNCHANGED mtasks
                        ELSE mtasks' = [mtasks EXCEPT ![m] = @ \cup {t}] /\ UNCHANGED st
                     /\ run' = [run EXCEPT ![t] = IF next = "idle" THEN Idle ELSE [@ EXCEPT !.pc = next]]
                     /\ UNCHANGED <<loc, alive, known, store, pendlost, dis, closs, kills, discards>>

SetOk(t) == /\ ~Atomic
            /\ IF AssignFirst THEN run[t].pc = "assigned" /\ DoSetOk(t, "idle")
               ELSE run[t].pc = "located" /\ DoSetOk(t, "okset")
Assign(t) == /\ ~Atomic
             /\ IF AssignFirst THEN run[t].pc = "located" /\ DoAssign(t, "assigned")
                ELSE run[t].pc = "okset" /\ DoAssign(t, "idle")
\* repaired code: one step under the machine's lock
AssignOk(t) == /\ Atomic /\ run[t].pc = "located"
               /\ LET m == run[t].m IN
                  IF known[m] THEN st' = [st EXCEPT ![t] = "LOST"] /\ UNCHANGED <<mtasks, closs>>
                  ELSE /\ mtasks' = [mtasks EXCEPT ![m] = @ \cup {t}]
                       /\ st' = [st EXCEPT ![t] = "OK"] /\ closs' = [closs EXCEPT ![t] = 0]
               /\ run' = [run EXCEPT ![t] = Idle]
               /\ UNCHANGED <<loc, alive, known, store, pendlost, dis, kills, discards>>

\* (also: the invocation could not be compiled on the granted machine because the machine is gone --
\* "task lost while compiling bigslice.Func")
SetLost(t) == /\ \/ run[t].pc = "fail"
                 \/ run[t].pc = "granted" /\ ~alive[run[t].m]
              /\ st' = [st EXCEPT ![t] = IF closs[t] + 1 >= MaxLost THEN "ERR" ELSE "LOST"]
              /\ closs' = [closs EXCEPT ![t] = @ + 1]
              /\ run' = [run EXCEPT ![t] = Idle]
              /\ UNCHANGED <<loc, alive, known, store, mtasks, pendlost, dis, kills, discards>>

\* the worker reported a fatal error (user code failed): task.Error(err), not retried
SetErr(t) == /\ run[t].pc = "fatal"
             /\ st' = [st EXCEPT ![t] = "ERR"]
             /\ run' = [run EXCEPT ![t] = Idle]
             /\ UNCHANGED <<loc, alive, known, store, mtasks, pendlost, dis, closs, kills, discards>>

(* environment and machine monitor *)
Kill(m) == /\ alive[m] /\ kills < MaxKills
           /\ alive' = [alive EXCEPT ![m] = FALSE] /\ store' = [store EXCEPT ![m] = {}]
           /\ kills' = kills + 1
           /\ UNCHANGED <<st, loc, known, mtasks, pendlost, run, dis, closs, discards>>

MonitorBegin(m) == /\ ~alive[m] /\ ~known[m]
                   /\ known' = [known EXCEPT ![m] = TRUE]
                   /\ pendlost' = pendlost \cup mtasks[m]
                   /\ mtasks' = [mtasks EXCEPT ![m] = {}]
                   /\ UNCHANGED <<st, loc, alive, store, run, dis, closs, kills, discards>>

MonitorMark(t) == /\ t \in pendlost
                  /\ pendlost' = pendlost \ {t}
                  /\ st' = [st EXCEPT ![t] = "LOST"]
                  /\ UNCHANGED <<loc, alive, known, store, mtasks, run, dis, closs, kills, discards>>

(* Discard *)
DiscardClaim(t) == /\ discards < MaxDiscards /\ st[t] = "OK" /\ dis[t] = "none"
                   /\ st' = [st EXCEPT ![t] = "RUNNING"]
                   /\ dis' = [dis EXCEPT ![t] = "claimed"]
                   /\ discards' = discards + 1
                   /\ UNCHANGED <<loc, alive, known, store, mtasks, pendlost, run, closs, kills>>

DiscardDo(t) == /\ dis[t] = "claimed"
                /\ dis' = [dis EXCEPT ![t] = "none"]
                /\ LET m == loc[t] IN
                   IF m # NoMach /\ t \in mtasks[m]
                   THEN /\ mtasks' = [mtasks EXCEPT ![m] = @ \ {t}]
                        /\ store' = [store EXCEPT ![m] = @ \ {t}]
                        /\ st' = [st EXCEPT ![t] = "LOST"]
                   ELSE /\ UNCHANGED <<mtasks, store>>
                        \* not the owner (not yet assigned, or the machine is lost): nothing to discard
                        /\ st' = IF DiscardRestores /\ st[t] = "RUNNING" THEN [st EXCEPT ![t] = "OK"] ELSE st
                /\ UNCHANGED <<loc, alive, known, pendlost, run, closs, kills, discards>>

Next == \/ \E t \in Tasks : \/ Submit(t) \/ Call(t) \/ Work(t) \/ ReplyLost(t) \/ SetLoc(t) \/ SetOk(t) \/ Assign(t) \/ AssignOk(t)
                            \/ SetLost(t) \/ SetErr(t) \/ MonitorMark(t) \/ DiscardClaim(t) \/ DiscardDo(t)
                            \/ \E m \in Mach : Grant(t, m)
        \/ \E m \in Mach : Kill(m) \/ MonitorBegin(m)

Spec == Init /\ [][Next]_vars
Fair == /\ \A t \in Tasks : WF_vars(Submit(t)) /\ WF_vars(Call(t)) /\ WF_vars(Work(t)) /\ WF_vars(SetLoc(t)) /\ WF_vars(SetOk(t))
                            /\ WF_vars(Assign(t)) /\ WF_vars(AssignOk(t)) /\ WF_vars(SetLost(t)) /\ WF_vars(SetErr(t)) /\ WF_vars(MonitorMark(t)) /\ WF_vars(DiscardDo(t))
                            /\ WF_vars(\E m \in Mach : Grant(t, m))
        /\ \A m \in Mach : WF_vars(MonitorBegin(m))
FairSpec == Spec /\ Fair

-----------------------------------------------------------------------------
TypeOK == /\ st \in [Tasks -> States] /\ loc \in [Tasks -> Mach \cup {NoMach}]
          /\ \A t \in Tasks : run[t].pc \in {"idle", "start", "granted", "called", "done", "fail", "fatal", "located", "okset", "assigned"}

\* somebody will change the state of a RUNNING task: its executor goroutine, or a Discard that has claimed it
NoOrphanRunning == \A t \in Tasks : st[t] = "RUNNING" =>
                      \/ run[t].pc \in {"called", "done", "fail", "fatal", "located", "assigned"}
                      \/ dis[t] = "claimed"
                      \/ t \in pendlost
\* the same for WAITING
NoOrphanWaiting == \A t \in Tasks : st[t] = "WAITING" => run[t].pc \in {"start", "granted"}

\* an OK task is registered with the machine that holds its output, or is about to be registered or marked lost:
\* the loss of that machine cannot go unnoticed
OkIsOwned == \A t \in Tasks : st[t] = "OK" =>
                /\ loc[t] # NoMach
                /\ \/ t \in mtasks[loc[t]]
                   \/ run[t].pc = "okset" /\ run[t].m = loc[t]
                   \/ t \in pendlost

\* a registered task's output is in the store of its machine while that machine is alive
OwnedIsStored == \A m \in Mach : \A t \in mtasks[m] : alive[m] /\ st[t] = "OK" /\ loc[t] = m => t \in store[m]

\* when kills and discards have stopped: every root OK, or a task failed
Settled == \/ \A r \in Roots : st[r] = "OK"
           \/ \E t \in Tasks : st[t] = "ERR"
Terminates == <>[]Settled
=============================================================================
