----------------------------- MODULE ReaderMon -----------------------------
(***************************************************************************)
(* The sliceio.Reader contract (sliceio/reader.go) and the meaning of each  *)
(* reader bigslice builds, as a state machine over recorded read sessions   *)
(* (C17, and the ordering/aggregation clauses of C10).                      *)
(*                                                                          *)
(* A session = one reader under test, read to its end with a given sequence *)
(* of destination sizes while its scripted inputs chunk their output in a   *)
(* given way.  State: what has been delivered so far and whether the end    *)
(* (EOF or error) has been seen.  Each recorded Read call is one step.      *)
(* Expected(rec) is the reader's meaning, computed here from the sources;   *)
(* the harness computes no expectation.                                     *)
(***************************************************************************)
EXTENDS Integers, Sequences, FiniteSets, TLC, Json, IOUtils

Recs == ndJsonDeserialize("c17_records.ndjson")

VARIABLES s,         \* index of the current session
          i,         \* number of reads of it consumed
          delivered, \* rows delivered so far (as seen in the destination right after each read)
          ended,     \* "" | "EOF" | "boom" | other error text
          bad
vars == <<s, i, delivered, ended, bad>>

Sentinel == -1000
RangeSeq(q) == {q[j] : j \in DOMAIN q}
Min(a, b) == IF a < b THEN a ELSE b

RECURSIVE ConcatAll(_)
ConcatAll(ss) == IF ss = <<>> THEN <<>> ELSE Head(ss) \o ConcatAll(Tail(ss))


Count(q, x) == Cardinality({j \in DOMAIN q : q[j] = x})
SameBag(a, b) == /\ Len(a) = Len(b)
                 /\ \A x \in RangeSeq(a) \cup RangeSeq(b) : Count(a, x) = Count(b, x)
SortedByKey(q) == \A j \in 1..(Len(q) - 1) : q[j][1] <= q[j+1][1]
StrictByKey(q) == \A j \in 1..(Len(q) - 1) : q[j][1] < q[j+1][1]
IsPrefix(a, b) == Len(a) <= Len(b) /\ SubSeq(b, 1, Len(a)) = a

Keys(q) == {q[j][1] : j \in DOMAIN q}
RECURSIVE SumSeq(_)
SumSeq(q) == IF q = <<>> THEN 0 ELSE Head(q) + SumSeq(Tail(q))
ValuesOf(q, k) == LET idx == {j \in DOMAIN q : q[j][1] = k}
                      RECURSIVE V(_)
                      V(S) == IF S = {} THEN <<>> ELSE LET m == CHOOSE x \in S : \A y \in S : x <= y IN <<q[m][2]>> \o V(S \ {m})
                  IN V(idx)

\* the user functions the harness plugs in (harness/c17): same definitions, independently written
MapF(x)     == <<x[1], x[1] * x[1] + 1>>
FilterP(x)  == x[1] % 3 # 0
FlatF(x)    == [j \in 1..(x[1] % 4) |-> <<x[1] + 100 * (j - 1)>>]
RECURSIVE FlatAll(_)
FlatAll(q) == IF q = <<>> THEN <<>> ELSE FlatF(Head(q)) \o FlatAll(Tail(q))

Mode(kind) == CASE kind \in {"fold"} -> "keyed-bag"
                [] kind \in {"reduce"} -> "keyed-sorted"
                [] kind \in {"merge", "sort"} -> "sorted-bag"
                [] kind = "cogroup" -> "cogroup"
                [] OTHER -> "seq"

Expected(r) ==
  LET src == IF Len(r.srcs) > 0 THEN r.srcs[1] ELSE <<>> IN
  CASE r.kind \in {"multi", "execmulti", "merge"} -> ConcatAll(r.srcs)
    [] r.kind \in {"frame", "decoding", "prefixed", "writerfunc", "taskbuffer", "sort", "scanner", "scanv", "scanner_arity", "scanner_type"} -> src
    [] r.kind = "map" -> [j \in DOMAIN src |-> MapF(src[j])]
    [] r.kind = "filter" -> SelectSeq(src, FilterP)
    [] r.kind = "flatmap" -> FlatAll(src)
    [] r.kind = "head" -> SubSeq(src, 1, Min(IF r.param < 0 THEN 0 ELSE r.param, Len(src)))
    [] OTHER -> <<>>

\* acceptance relation between what was delivered and the reader's meaning
Matches(r, got) ==
  LET all == ConcatAll(r.srcs) IN
  CASE Mode(r.kind) = "seq" -> got = Expected(r)
    [] Mode(r.kind) = "sorted-bag" -> SortedByKey(got) /\ SameBag(got, Expected(r))
    [] Mode(r.kind) = "keyed-bag" ->
         /\ Keys(got) = Keys(all) /\ Len(got) = Cardinality(Keys(all))
         /\ \A j \in DOMAIN got : got[j][2] = SumSeq(ValuesOf(all, got[j][1]))
    [] Mode(r.kind) = "keyed-sorted" ->
         /\ Keys(got) = Keys(all) /\ Len(got) = Cardinality(Keys(all)) /\ StrictByKey(got)
         /\ \A j \in DOMAIN got : got[j][2] = SumSeq(ValuesOf(all, got[j][1]))
    [] Mode(r.kind) = "cogroup" ->
         /\ Keys(got) = Keys(all) /\ Len(got) = Cardinality(Keys(all)) /\ StrictByKey(got)
         /\ \A j \in DOMAIN got : \A d \in DOMAIN r.srcs :
               SameBag(got[j][1 + d], ValuesOf(r.srcs[d], got[j][1]))
    [] OTHER -> FALSE

\* a seq-mode reader that ended with an error must have delivered a prefix of its meaning
PrefixOK(r, got) == Mode(r.kind) # "seq" \/ IsPrefix(got, Expected(r))

SentinelRow(r, row, j) == \A c \in DOMAIN row :
                             IF r.kind = "cogroup" /\ c > 1 THEN row[c] = <<Sentinel - (j - 1)>>
                             ELSE row[c] = Sentinel - (j - 1)

Fail(r, what, at) == [id |-> r.id, kind |-> r.kind, what |-> what, at |-> at]

Init == s = 1 /\ i = 0 /\ delivered = <<>> /\ ended = "" /\ bad = <<>>

(* one recorded Read call *)
ReadStep ==
  /\ s <= Len(Recs)
  /\ i < Len(Recs[s].reads)
  /\ LET r == Recs[s]
         rd == r.reads[i + 1]
         nOK == rd.n >= 0 /\ rd.n <= rd.k
         n == IF nOK THEN rd.n ELSE 0
         \* on a (non-EOF) error return the destination is unspecified: the caller must drop it
         tailOK == rd.err \notin {"", "EOF"} \/ \A j \in (n + 1)..Len(rd.dst) : SentinelRow(r, rd.dst[j], j)
         errOK == \/ rd.err \in {"", "EOF"} \/ (rd.err = "boom" /\ r.errat > 0)
                  \/ (rd.err = "typeerr" /\ r.kind \in {"scanner_arity", "scanner_type"})
         stickyOK == ended = "" \/ (rd.n = 0 /\ rd.err = ended)
         f == (IF nOK THEN <<>> ELSE <<Fail(r, "CountInRange", i + 1)>>)
              \o (IF nOK /\ ~tailOK THEN <<Fail(r, "WritesOnlyDelivered", i + 1)>> ELSE <<>>)
              \o (IF errOK THEN <<>> ELSE <<Fail(r, "UnexpectedError", i + 1)>>)
              \o (IF stickyOK THEN <<>> ELSE <<Fail(r, "StickyEnd", i + 1)>>)
     IN /\ delivered' = IF ended = "" THEN delivered \o SubSeq(rd.dst, 1, n) ELSE delivered
        /\ ended' = IF ended = "" THEN rd.err ELSE ended
        /\ bad' = bad \o f
        /\ i' = i + 1
        /\ s' = s

(* the session is over: judge the whole *)
EndSession ==
  /\ s <= Len(Recs)
  /\ i = Len(Recs[s].reads)
  /\ LET r == Recs[s]
         panicked == "panic" \in DOMAIN r
         berr == IF "builderr" \in DOMAIN r THEN r.builderr ELSE ""
         f == IF panicked THEN <<Fail(r, "Panic", i)>>
              ELSE IF berr # "" THEN
                   (IF berr = "boom" /\ r.errat > 0 THEN <<>> ELSE <<Fail(r, "ConstructorError", 0)>>)
                   \o (IF "leftover" \in DOMAIN r /\ r.leftover # <<>> THEN <<Fail(r, "SpillFilesRemoved", 0)>> ELSE <<>>)
              ELSE
                (IF r.kind \in {"scanner_arity", "scanner_type"} THEN
                    \* a destination of the wrong arity or type is rejected with an error, nothing delivered
                    \* (whenever it is offered: after r.param well-formed calls, which delivered the first rows)
                    (IF ended = "typeerr" /\ delivered = SubSeq(Expected(r), 1, r.param) THEN <<>> ELSE <<Fail(r, "ScannerRejectsBadDestination", i)>>)
                 ELSE IF ended = "EOF" THEN
                    (IF Matches(r, delivered) THEN <<>> ELSE <<Fail(r, "RowsMatchMeaning", i)>>)
                 ELSE IF ended = "boom" /\ r.errat > 0 THEN
                    (IF PrefixOK(r, delivered) THEN <<>> ELSE <<Fail(r, "PrefixBeforeError", i)>>)
                 ELSE <<Fail(r, "EndsWithEOF", i)>>)
                \o (IF r.retained = delivered \/ r.kind \in {"scanner", "scanv", "scanner_arity", "scanner_type"}
                    THEN <<>> ELSE <<Fail(r, "DeliveredRowsUnaltered", i)>>)
                \o (IF "leftover" \in DOMAIN r /\ r.leftover # <<>> THEN <<Fail(r, "SpillFilesRemoved", i)>> ELSE <<>>)
                \o (IF r.kind = "writerfunc" /\ ended = "EOF" /\ ~(r.written = Expected(r) /\ r.endcalls = 1)
                    THEN <<Fail(r, "WriterSeesEveryRowOnceThenEnd", i)>> ELSE <<>>)
     IN bad' = bad \o f
  /\ s' = s + 1 /\ i' = 0 /\ delivered' = <<>> /\ ended' = ""

Next == ReadStep \/ EndSession
Spec == Init /\ [][Next]_vars

Dump == s <= Len(Recs) \/ JsonSerialize("c17_verdict.json", [n |-> Len(Recs), bad |-> bad])
=============================================================================
