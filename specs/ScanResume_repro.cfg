SPECIFICATION FairSpec
CONSTANTS
 Rows = {1, 2, 3, 4, 5}
 BatchSize = 2
 MaxLosses = 2
 Reproducible = TRUE
INVARIANTS TypeOK RowsExact NoError
PROPERTIES Completes
CHECK_DEADLOCK FALSE
