------------------------------- MODULE Store -------------------------------
(***************************************************************************)
(* The worker task store (exec/store.go: memoryStore, fileStore over a      *)
(* temp-file + rename file layer) as a commit-atomic map (C15):             *)
(*   ~entry[k].present | [bytes, count]    what readers may see           *)
(*   wbuf[w]  = bytes written to writer w, wkey[w] its key, wst[w] its      *)
(*              state: "open" | "dead" (create failed, write failed,        *)
(*              committed or discarded)                                     *)
(*   unk      = keys whose entry is uncertain because an operation that may *)
(*              have had a partial effect reported an (injected) error      *)
(* Actions = the store API calls; each recorded call with its results is    *)
(* one step and is checked against the state:                               *)
(*   Visibility  Open/Stat succeed for k only after a Commit(k) returned    *)
(*               nil (since the last Discard(k))                            *)
(*   Exact       a successful Open(k, off) reads exactly bytes[off..], Stat *)
(*               = (len, count)                                             *)
(*   Honest      Commit returns nil only if the entry is then readable      *)
(* Outcomes that differ between the two implementations (Create on an       *)
(* existing key) are both allowed; injected file-layer faults may surface   *)
(* as errors of the call that hit them, never as wrong data.                *)
(***************************************************************************)
EXTENDS Integers, Sequences, FiniteSets, TLC, Json, IOUtils

Recs == ndJsonDeserialize("c15_store.ndjson")

VARIABLES s, i, entry, unk, wkey, wbuf, wst, dead, bad
vars == <<s, i, entry, unk, wkey, wbuf, wst, dead, bad>>

Pat(w, j) == (w * 37 + j * 7 + 11) % 251
Keys == {0, 1}
Absent == [present |-> FALSE, bytes |-> <<>>, count |-> 0]

Init == /\ s = 1 /\ i = 0 /\ entry = [k \in Keys |-> Absent] /\ unk = {} /\ wkey = <<>> /\ wbuf = <<>> /\ wst = <<>>
        /\ dead = FALSE /\ bad = <<>>

Begin == /\ s <= Len(Recs) /\ i = 0
         /\ entry' = [k \in Keys |-> Absent] /\ unk' = {} /\ wkey' = <<>> /\ wbuf' = <<>> /\ wst' = <<>>
         /\ dead' = FALSE /\ i' = 1 /\ UNCHANGED <<s, bad>>

Fail(r, st, what) == [id |-> r.id, impl |-> r.impl, step |-> i, op |-> st.op[1], what |-> what, nfaults |-> r.nfaults]
IsPrefix(a, b) == Len(a) <= Len(b) /\ SubSeq(b, 1, Len(a)) = a
FaultOK(r, e) == e = "fault" /\ r.nfaults > 0

(* result of checking one call: [what (""=fine), entry, unk, wkey, wbuf, wst] *)
Same == [what |-> "", entry |-> entry, unk |-> unk, wkey |-> wkey, wbuf |-> wbuf, wst |-> wst]

Check(r, st) ==
  LET op == st.op
      name == op[1]
  IN
  IF "skipped" \in DOMAIN st THEN
       (IF name = "create" THEN Same ELSE Same)
  ELSE
  CASE name = "create" ->
         LET k == op[2]
             ok == st.err = ""
             allowedErr == (st.err = "exists" /\ (entry[k].present \/ k \in unk)) \/ FaultOK(r, st.err)
         IN [Same EXCEPT !.what = IF ok \/ allowedErr THEN "" ELSE "CreateFails",
                         !.wkey = Append(wkey, k), !.wbuf = Append(wbuf, <<>>),
                         !.wst = Append(wst, IF ok THEN "open" ELSE "dead")]
    [] name = "write" ->
         LET w == op[2] + 1
             n == op[3]
             ok == st.err = "" /\ st.n = n
         IN [Same EXCEPT !.what = IF ok \/ FaultOK(r, st.err) THEN "" ELSE "WriteFails",
                         !.wbuf = [wbuf EXCEPT ![w] = @ \o [j \in 1..n |-> Pat(w - 1, Len(wbuf[w]) + j - 1)]],
                         !.wst = [wst EXCEPT ![w] = IF ok THEN @ ELSE "dead"]]
    [] name = "commit" ->
         LET w == op[2] + 1
             k == wkey[w]
             ok == st.err = ""
             allowedErr == (st.err = "exists" /\ (entry[k].present \/ k \in unk)) \/ FaultOK(r, st.err)
         IN [Same EXCEPT !.what = IF ok \/ allowedErr THEN "" ELSE "CommitFails",
                         !.entry = IF ok THEN [entry EXCEPT ![k] = [present |-> TRUE, bytes |-> wbuf[w], count |-> op[3]]] ELSE entry,
                         \* a commit that reported an injected error may or may not have published
                         !.unk = IF ok THEN unk \ {k} ELSE IF st.err = "fault" THEN unk \cup {k} ELSE unk,
                         !.wst = [wst EXCEPT ![w] = "dead"]]
    [] name = "wdiscard" -> [Same EXCEPT !.wst = [wst EXCEPT ![op[2] + 1] = "dead"]]
    [] name = "open" ->
         LET k == op[2]
             off == op[3]
             readOK == st.err = "" /\ ~("rerr" \in DOMAIN st) /\ ~("cerr" \in DOMAIN st)
         IN IF k \in unk THEN Same
            ELSE IF ~entry[k].present THEN
                 [Same EXCEPT !.what = IF st.err # "" THEN "" ELSE "VisibleOnlyAfterCommit"]
            ELSE LET b == entry[k].bytes
                     want == IF off <= Len(b) THEN SubSeq(b, off + 1, Len(b)) ELSE <<>>
                 IN IF readOK THEN [Same EXCEPT !.what = IF st.data = want THEN "" ELSE "ExactBytesFromOffset"]
                    ELSE IF r.nfaults > 0 /\ (st.err = "fault" \/ ("rerr" \in DOMAIN st /\ st.rerr = "fault") \/ ("cerr" \in DOMAIN st))
                         THEN [Same EXCEPT !.what = IF IsPrefix(st.data, want) THEN "" ELSE "ExactBytesFromOffset"]
                    ELSE IF off > Len(b) /\ st.err # "" THEN Same
                    ELSE [Same EXCEPT !.what = "CommittedEntryReadable"]
    [] name = "stat" ->
         LET k == op[2] IN
         IF k \in unk THEN Same
         ELSE IF ~entry[k].present THEN [Same EXCEPT !.what = IF st.err # "" THEN "" ELSE "VisibleOnlyAfterCommit"]
         ELSE IF st.err = "" THEN
              [Same EXCEPT !.what = IF st.size = Len(entry[k].bytes) /\ st.records = entry[k].count THEN "" ELSE "StatExact"]
         ELSE [Same EXCEPT !.what = IF FaultOK(r, st.err) THEN "" ELSE "CommittedEntryReadable"]
    [] name = "discard" ->
         LET k == op[2] IN
         IF st.err = "" THEN [Same EXCEPT !.entry = [entry EXCEPT ![k] = Absent], !.unk = unk \ {k}]
         ELSE IF st.err = "fault" THEN [Same EXCEPT !.unk = unk \cup {k}]
         ELSE [Same EXCEPT !.what = IF ~entry[k].present \/ k \in unk THEN "" ELSE "DiscardFails"]
    [] OTHER -> Same

Step ==
  /\ s <= Len(Recs) /\ i >= 1 /\ i <= Len(Recs[s].steps)
  /\ LET r == Recs[s]
         st == r.steps[i]
     IN IF dead THEN UNCHANGED <<entry, unk, wkey, wbuf, wst, dead, bad>>
        ELSE LET c == Check(r, st) IN
             /\ entry' = c.entry /\ unk' = c.unk /\ wkey' = c.wkey /\ wbuf' = c.wbuf /\ wst' = c.wst
             /\ dead' = (c.what # "")
             /\ bad' = IF c.what = "" THEN bad ELSE Append(bad, Fail(r, st, c.what))
  /\ i' = i + 1 /\ s' = s

End == /\ s <= Len(Recs) /\ i = Len(Recs[s].steps) + 1
       /\ bad' = IF "panic" \in DOMAIN Recs[s] THEN Append(bad, [id |-> Recs[s].id, impl |-> Recs[s].impl, step |-> 0, op |-> "", what |-> "Panic", nfaults |-> Recs[s].nfaults]) ELSE bad
       /\ s' = s + 1 /\ i' = 0 /\ UNCHANGED <<entry, unk, wkey, wbuf, wst, dead>>

Next == Begin \/ Step \/ End
Spec == Init /\ [][Next]_vars
Dump == s <= Len(Recs) \/ JsonSerialize("c15_store_verdict.json", [n |-> Len(Recs), bad |-> bad])
=============================================================================
