SPECIFICATION Spec
CONSTANTS
 Shapes <- ShapesSmall1
 MaxLost = 2
 LossBudget = 3
 ErrBudget = 1
 InitStates = {"INIT", "OK", "LOST"}
 AllowCancel = FALSE
 FixErr = TRUE
INVARIANTS TypeOK ErrorHasCause LostBudgetOK NotStuck AwaitedIsLive
PROPERTIES SubmitReady NoDoubleRun SuccessMeansDone NeededOnly
CHECK_DEADLOCK FALSE
