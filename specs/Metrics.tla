------------------------------ MODULE Metrics ------------------------------
(***************************************************************************)
(* metrics.Scope / metrics.Counter (metrics/scope.go, metrics/metrics.go):  *)
(* values val[s][c] of counter c in scope s.                                *)
(*   Incr(s,c,n)      val[s][c] += n        (also from several goroutines)  *)
(*   Merge(s,u)       val[s][c] += val[u][c] for every c; u unchanged       *)
(*   Reset(s,u)       s reports u's values                                  *)
(*   Reset(s,nil)     s reports zero for everything                         *)
(*   Gob(d,s)         d := decode(encode(s)) reports s's values             *)
(* After Reset(s,u) the implementation may share instances between s and u  *)
(* (the property does not say); the harness therefore never writes to such  *)
(* a pair again before resetting it, and the model is deterministic.        *)
(* Every recorded operation is one step; the real values of ALL scopes and  *)
(* counters must equal the model's after each step.                         *)
(***************************************************************************)
EXTENDS Integers, Sequences, TLC, Json, IOUtils

Recs == ndJsonDeserialize("c20_records.ndjson")

VARIABLES s, i, val, dead, bad
vars == <<s, i, val, dead, bad>>

Init == s = 1 /\ i = 0 /\ val = <<>> /\ dead = FALSE /\ bad = <<>>

Zero(r) == [x \in 1..r.nscope |-> [c \in 1..r.ncount |-> 0]]

Apply(v, op) ==
  LET name == op[1] IN
  CASE name = "incr" -> [v EXCEPT ![op[2] + 1][op[3] + 1] = @ + op[4]]
    [] name = "parincr" -> [v EXCEPT ![op[2] + 1][op[3] + 1] = @ + op[4] * op[5]]
    [] name = "merge" -> [v EXCEPT ![op[2] + 1] = [c \in DOMAIN @ |-> @[c] + v[op[3] + 1][c]]]
    [] name = "reset" -> [v EXCEPT ![op[2] + 1] = v[op[3] + 1]]
    [] name = "resetnil" -> [v EXCEPT ![op[2] + 1] = [c \in DOMAIN @ |-> 0]]
    [] name = "gob" -> [v EXCEPT ![op[2] + 1] = v[op[3] + 1]]
    [] name = "fresh" -> [v EXCEPT ![op[2] + 1] = [c \in DOMAIN @ |-> 0]]
    [] OTHER -> v

Begin == /\ s <= Len(Recs) /\ i = 0
         /\ val' = Zero(Recs[s]) /\ dead' = FALSE /\ i' = 1 /\ UNCHANGED <<s, bad>>

Step ==
  /\ s <= Len(Recs) /\ i >= 1 /\ i <= Len(Recs[s].steps)
  /\ LET r == Recs[s]
         st == r.steps[i]
         v2 == Apply(val, st.op)
         what == IF "panic" \in DOMAIN st THEN "Panic"
                 ELSE IF "err" \in DOMAIN st THEN "TransportError"
                 ELSE IF st.vals # v2 THEN
                      (CASE st.op[1] \in {"incr", "parincr"} -> "IncrementsAdd"
                         [] st.op[1] = "merge" -> "MergeAddsAndLeavesSourceAlone"
                         [] st.op[1] \in {"reset", "resetnil", "fresh"} -> "ResetReportsOther"
                         [] OTHER -> "TransportPreservesValues")
                 ELSE ""
     IN IF dead THEN UNCHANGED <<val, dead, bad>>
        ELSE /\ val' = v2
             /\ dead' = (what # "")
             /\ bad' = IF what = "" THEN bad ELSE Append(bad, [id |-> r.id, step |-> i, op |-> st.op[1], what |-> what])
  /\ i' = i + 1 /\ s' = s

End == /\ s <= Len(Recs) /\ i = Len(Recs[s].steps) + 1
       /\ s' = s + 1 /\ i' = 0 /\ UNCHANGED <<val, dead, bad>>

Next == Begin \/ Step \/ End
Spec == Init /\ [][Next]_vars
Dump == s <= Len(Recs) \/ JsonSerialize("c20_verdict.json", [n |-> Len(Recs), bad |-> bad])
=============================================================================
