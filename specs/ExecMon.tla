------------------------------ MODULE ExecMon ------------------------------
(***************************************************************************)
(* Monitor over recorded executor sessions (harness/c12x): a two-stage     *)
(* program is run on a bigmachine test system, its result is possibly      *)
(* discarded -- also while a completed root task sits between being marked *)
(* OK and being assigned to its machine -- machines are possibly killed at  *)
(* chosen executor events, and the result is then consumed by a second      *)
(* invocation.  The observer keeps, per driver task, the state implied by   *)
(* the recorded events (task state changes, the evaluator's hand-off, a     *)
(* Discard's claim) and judges (C12, C02, C19):                             *)
(*   NoRunBlocksForever      neither invocation ends by its deadline        *)
(*   NoTaskLeftRunning       when everything has ended no task is RUNNING   *)
(*                           or WAITING: such a task has nobody left to     *)
(*                           change its state and wedges every later use    *)
(*   RowsOfFirstEvaluation   a successful reuse sees the rows (count, sum)  *)
(*                           of the first evaluation                        *)
(*   SucceedsWithoutLoss     without machine loss both invocations succeed  *)
(*   DiscardReturns          Discard returns                                *)
(*   FatalErrorSurfacesSessionUsable  a persistent user error fails the run *)
(*                           (no hang, no success); a later run succeeds   *)
(*   CompletesWhenLossesStop after the loss of one machine both invocations *)
(*                           still succeed (replacements can be started)    *)
(***************************************************************************)
EXTENDS Integers, Sequences, FiniteSets, TLC, Json, IOUtils

Recs == ndJsonDeserialize("c12x_records.ndjson")
VARIABLES s, i, st, kills, bad
vars == <<s, i, st, kills, bad>>

Fail(r, what) == [id |-> r.id, kind |-> r.kind, what |-> what]
Upd(f, k, v) == [x \in (DOMAIN f) \cup {k} |-> IF x = k THEN v ELSE f[x]]

Init == s = 1 /\ i = 0 /\ st = <<>> /\ kills = {} /\ bad = <<>>

Begin == /\ s <= Len(Recs) /\ i = 0
         /\ i' = 1 /\ st' = <<>> /\ kills' = {} /\ UNCHANGED <<s, bad>>

Step == /\ s <= Len(Recs) /\ i >= 1 /\ i <= Len(Recs[s].events)
        /\ LET ev == Recs[s].events[i] e == ev.ev IN
           /\ st' = CASE e = "TaskState" -> Upd(st, ev.t, ev.st)
                      [] e = "EvalSubmit" /\ ev.runner -> Upd(st, ev.t, "WAITING")
                      [] e = "BmDiscardClaim" -> Upd(st, ev.t, "RUNNING")
                      [] OTHER -> st
           \* machines lost: killed by the harness, or found lost by their monitor (under load a machine of the test
           \* system can also die by itself, of a lapsed keepalive)
           /\ kills' = IF e \in {"HKill", "SmLost"} THEN kills \cup {ev.m} ELSE kills
        /\ i' = i + 1 /\ UNCHANGED <<s, bad>>

End == /\ s <= Len(Recs) /\ i = Len(Recs[s].events) + 1
       /\ LET r == Recs[s]
              stuck == {t \in DOMAIN st : st[t] \in {"RUNNING", "WAITING"}}
              fails ==
                IF "panic" \in DOMAIN r THEN <<Fail(r, "Panic")>>
                ELSE (IF r.run1 = "timeout" \/ r.reuse = "timeout" \/ r.reuse = "scan timeout" THEN <<Fail(r, "NoRunBlocksForever")>> ELSE <<>>)
                  \o (IF r.reuse # "skipped" /\ stuck # {} THEN <<Fail(r, "NoTaskLeftRunning")>> ELSE <<>>)
                  \o (IF r.reuse = "ok" /\ (r.rows # r.wantrows \/ r.sum # r.wantsum) THEN <<Fail(r, "RowsOfFirstEvaluation")>> ELSE <<>>)
                  \o (IF kills = {} /\ r.kind # "fatal" /\ (r.run1 # "ok" \/ r.reuse # "ok") THEN <<Fail(r, "SucceedsWithoutLoss")>> ELSE <<>>)
                  \* user code that fails persistently: the run reports an error (it neither succeeds nor hangs) and the
                  \* session remains usable for a healthy program
                  \o (IF r.kind = "fatal" /\ (r.run1 = "ok" \/ r.run1 = "timeout" \/ r.reuse # "ok") THEN <<Fail(r, "FatalErrorSurfacesSessionUsable")>> ELSE <<>>)
                  \o (IF r.discard /\ r.run1 = "ok" /\ ~r.discardret THEN <<Fail(r, "DiscardReturns")>> ELSE <<>>)
                  \* one machine is lost, replacements can be started, nothing else fails: the lost outputs are recomputed
                  \o (IF Cardinality(kills) = 1 /\ (r.run1 # "ok" \/ r.reuse # "ok") THEN <<Fail(r, "CompletesWhenLossesStop")>> ELSE <<>>)
          IN bad' = bad \o fails
       /\ s' = s + 1 /\ i' = 0 /\ UNCHANGED <<st, kills>>

Next == Begin \/ Step \/ End
Spec == Init /\ [][Next]_vars
Dump == s <= Len(Recs) \/ JsonSerialize("c12x_verdict.json", [n |-> Len(Recs), bad |-> bad])
=============================================================================
