---- MODULE EvalGen ----
(* Behaviour generation for replay into the real exec.Eval (spec -> code direction).
   Same actions as Eval; a history variable records the ENVIRONMENT steps (what the harness must
   do); system steps are what the code is expected to do on its own.  System steps have priority
   (the harness applies an environment step only at quiescence), so that a generated behaviour is
   exactly reproducible by the step-synchronous harness. *)
EXTENDS EvalMC, Json, IOUtils

CONSTANTS Depth, OutPrefix
VARIABLES hist, init0
gvars == <<vars, hist, init0>>

SysEnabled == \/ \E e \in Evals : pc[e] \in {"top", "submit"}
              \/ \E e \in Evals : pc[e] = "wait" /\ donec[e] # {}
              \/ \E e \in Evals, t \in Tasks : waiter[e][t] \in {"r","n"} /\ tstate[t] \in Terminal

Sys == /\ \/ \E e \in Evals : Top(e)
          \/ \E e \in Evals, t \in Tasks : Recv(e,t) \/ SubmitOne(e,t) \/ Wake(e,t)
       /\ hist' = hist

Env == /\ ~SysEnabled
       /\ \/ \E e \in Evals : Start(e) /\ hist' = Append(hist, <<"start", e>>)
          \/ \E e \in Evals : CancelExit(e) /\ hist' = Append(hist, <<"cancel", e>>)
          \/ \E e \in Evals, t \in Tasks : Post(e,t) /\ hist' = Append(hist, <<"post", e, t>>)
          \/ \E t \in Tasks : ExecStart(t) /\ hist' = Append(hist, <<"set", t, "RUNNING">>)
          \/ \E t \in Tasks : ExecEnd(t, "OK") /\ hist' = Append(hist, <<"set", t, "OK">>)
          \/ \E t \in Tasks : ExecEnd(t, "LOST") /\ hist' = Append(hist, <<"set", t, "LOST">>)
          \/ \E t \in Tasks : ExecEnd(t, "ERROR") /\ hist' = Append(hist, <<"err", t>>)
          \/ \E t \in Tasks : LoseOK(t) /\ hist' = Append(hist, <<"lose", t>>)

GenNext == (Sys \/ Env) /\ UpdOkw /\ UpdLret /\ UNCHANGED init0
GenInit == Init /\ hist = <<>> /\ init0 = tstate
GenSpec == GenInit /\ [][GenNext]_gvars

AllDone == \A e \in Evals : pc[e] = "done"
SeqOfSet(S) == LET RECURSIVE F(_) F(X) == IF X = {} THEN <<>> ELSE LET x == CHOOSE y \in X : TRUE IN <<x>> \o F(X \ {x}) IN F(S)
Record == [tasks |-> SeqOfSet(g.tasks), deps |-> g.deps, phase |-> g.phase, roots |-> g.roots,
           init |-> init0, steps |-> hist, final |-> tstate, res |-> res]
DumpGen == (TLCGet("level") < Depth /\ ~AllDone)
           \/ JsonSerialize(OutPrefix \o ToString(TLCGet("stats").traces) \o ".json", Record)
====
