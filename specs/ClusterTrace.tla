---------------------------- MODULE ClusterTrace ----------------------------
(***************************************************************************)
(* Trace validation: the hook events recorded from the real                *)
(* machineManager.Do (exec/slicemachine.go, build tag verif) are a          *)
(* behaviour of Cluster.tla.  Every recorded event is matched with the      *)
(* action of Cluster.tla that stands for the same select case of Do; the    *)
(* scalars the hook logged under the loop's single goroutine (need,         *)
(* pending, the machine's load and health, queue lengths, number of         *)
(* machines to start) are bound to the action's post-state, everything else *)
(* (request queue, granted map, batches, health of the other machines) is   *)
(* inferred by the specification.                                           *)
(*                                                                          *)
(*   MgrOffer   Offer(r)          MgrCancel           Cancel(r)             *)
(*   MgrGrant   Grant             MgrDone             Done(r, errkind)      *)
(*   MgrStarted StartedBatch(i,k) MgrStopped          Stop(m)               *)
(*   MgrProbationExpire ProbExpire(m)                                       *)
(*   MgrStart   the growth step at the bottom of the loop: it is part of    *)
(*              the preceding action (After), so it is consumed together    *)
(*              with it; on its own (after a cancel of a request that was   *)
(*              already granted, which logs nothing) it is Recheck          *)
(*   MgrSelect  the snapshot at the top of the loop: no step, but need,     *)
(*              pending and the queue sizes must agree with the model       *)
(*                                                                          *)
(* The sessions are concatenated; Begin resets the state and installs the   *)
(* session's manager configuration (task capacity per machine, parallelism  *)
(* limit, as logged by the manager itself).                                 *)
(* The verdict is conformance, not a property: a session that cannot be     *)
(* matched means the code no longer follows Cluster.tla (DRIFT), i.e. the   *)
(* exhaustive results for Cluster.tla no longer speak for this tree.        *)
(***************************************************************************)
EXTENDS Cluster, Json, IOUtils

Recs == ndJsonDeserialize("c14_conf.ndjson")
VARIABLE l
tvars == <<vars, l>>

SetOf(sq) == {sq[j] : j \in DOMAIN sq}
\* constants of Cluster.tla, taken from the file (cfg: Reqs <- TReqs, ...)
\* the first record lists the requests <<session, rid, priority, procs>> of all sessions
TReqs == {<<x[1], x[2], x[3], x[4]>> : x \in SetOf(Recs[1].reqs)}
TProcs == [r \in TReqs |-> r[4]]
TPrio == [r \in TReqs |-> r[3]]

NoConfigs == {}
TraceInit == /\ q = {} /\ granted = [r \in Reqs |-> 0] /\ health = [m \in Mach |-> "none"]
             /\ load = [m \in Mach |-> 0] /\ need = 0 /\ pending = 0 /\ batches = <<>>
             /\ nstarted = 0 /\ offered = {} /\ finished = {} /\ stops = 0 /\ peak = 0
             /\ cfg = [mp |-> 1, maxp |-> 1]
             /\ l = 1 /\ TLCSet(1, 0)

ResetAll == /\ q' = {} /\ granted' = [r \in Reqs |-> 0] /\ health' = [m \in Mach |-> "none"]
            /\ load' = [m \in Mach |-> 0] /\ need' = 0 /\ pending' = 0 /\ batches' = <<>>
            /\ nstarted' = 0 /\ offered' = {} /\ finished' = {} /\ stops' = 0 /\ peak' = 0

NextIsStart == l + 1 <= Len(Recs) /\ Recs[l + 1].ev = "MgrStart"
Nm == IF NextIsStart THEN Recs[l + 1].nmach ELSE 0
\* the growth step the model computes is the one the code logged (or none was logged and none is due)
GrowthAsLogged(base) == /\ pending' = base + Nm * MachProcs
                        /\ NextIsStart => /\ Recs[l + 1].pending = pending'
                                          /\ Recs[l + 1].need = need'
Adv == l' = l + (IF NextIsStart THEN 2 ELSE 1)

ReqOf(ev) == CHOOSE r \in Reqs : r[1] = ev.s /\ r[2] = ev.rid
HealthCode(h) == CASE h = "ok" -> 0 [] h = "prob" -> 1 [] h = "lost" -> 2 [] OTHER -> -1
NOk == Cardinality(Ok)
NProb == Cardinality({m \in Started : health[m] = "prob"})

Match(ev) ==
  LET k == ev.ev IN
  CASE k = "Begin" -> ResetAll /\ l' = l + 1
    [] k = "MgrSelect" ->
         /\ ev.need = need /\ ev.pending = pending /\ ev.nok = NOk /\ ev.nprob = NProb /\ ev.nq = Cardinality(q)
         /\ UNCHANGED <<q, granted, health, load, need, pending, batches, nstarted, offered, finished, stops, peak>> /\ l' = l + 1
    [] k = "MgrOffer" ->
         /\ Offer(ReqOf(ev)) /\ need' = ev.need /\ GrowthAsLogged(pending) /\ Adv
    [] k = "MgrCancel" ->
         /\ Cancel(ReqOf(ev)) /\ need' = ev.need /\ GrowthAsLogged(pending) /\ Adv
    [] k = "MgrGrant" ->
         LET m == ev.m + 1 r == ReqOf(ev) IN
         /\ Grant /\ granted'[r] = m /\ granted[r] = 0
         /\ load'[m] = ev.load /\ ev.max = MachProcs /\ ev.health = 0 /\ need' = ev.need
         /\ GrowthAsLogged(pending) /\ Adv
    [] k = "MgrDone" ->
         LET m == ev.m + 1
             cand == {r \in Reqs : granted[r] = m /\ r \notin finished /\ Procs[r] = ev.procs}
         IN /\ cand # {}
            /\ Done(CHOOSE r \in cand : TRUE, ev.err)
            /\ load'[m] = ev.load /\ need' = ev.need /\ HealthCode(health'[m]) = ev.health
            /\ GrowthAsLogged(pending) /\ Adv
    [] k = "MgrProbationExpire" ->
         /\ ProbExpire(ev.m + 1) /\ GrowthAsLogged(pending) /\ Adv
    [] k = "MgrStopped" ->
         /\ Stop(ev.m + 1)
         /\ ev.nok = Cardinality({m \in Started : health'[m] = "ok"})
         /\ ev.nprob = Cardinality({m \in Started : health'[m] = "prob"})
         /\ GrowthAsLogged(pending) /\ Adv
    [] k = "MgrStarted" ->
         LET n == Len(ev.machines)
             fits == {i \in DOMAIN batches : batches[i] = n + ev.nfail}
         IN /\ fits # {}
            /\ \A j \in 1..n : ev.machines[j] = nstarted + j - 1      \* machines are numbered as they come up
            /\ StartedBatch(CHOOSE i \in fits : \A i2 \in fits : i <= i2, n)
            /\ GrowthAsLogged(ev.pending) /\ Adv
    [] k = "MgrStart" ->     \* not preceded by an event: the loop fell through after a no-op cancel
         /\ Recheck /\ pending' = pending + ev.nmach * MachProcs /\ ev.pending = pending' /\ l' = l + 1
    [] OTHER -> UNCHANGED <<q, granted, health, load, need, pending, batches, nstarted, offered, finished, stops, peak>> /\ l' = l + 1

TraceNext == /\ l <= Len(Recs)
             /\ cfg' = IF Recs[l].ev = "Begin" THEN [mp |-> Recs[l].cap, maxp |-> Recs[l].maxp] ELSE cfg
             /\ Match(Recs[l])
TraceSpec == TraceInit /\ [][TraceNext]_tvars

Progress == IF l > TLCGet(1) THEN TLCSet(1, l) ELSE TRUE
DoneOut == JsonSerialize("c14_conf.json", [n |-> Len(Recs), reached |-> TLCGet(1) - 1])
=============================================================================
