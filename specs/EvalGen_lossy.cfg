SPECIFICATION GenSpec
CONSTANTS
 Shapes <- ShapesLossy
 MaxLost = 5
 LossBudget = 7
 ErrBudget = 1
 InitStates = {"INIT"}
 AllowCancel = FALSE
 FixErr = TRUE
 Depth = 60
 OutPrefix = "gen/b"
INVARIANTS DumpGen
CHECK_DEADLOCK FALSE
