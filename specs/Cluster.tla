------------------------------ MODULE Cluster ------------------------------
(***************************************************************************)
(* machineManager.Do and schedule() (exec/slicemachine.go): the single     *)
(* event loop that owns request queue, machine loads and health, need /    *)
(* pending accounting and cluster growth.  One action per select case.     *)
(* Design-level model, checked exhaustively (C14); the recorded behaviour  *)
(* of the real manager is judged by ClusterMon.tla.                        *)
(***************************************************************************)
EXTENDS Integers, FiniteSets, Sequences, TLC
SX == INSTANCE SequencesExt

CONSTANTS Reqs,        \* request ids
          Procs,       \* [Reqs -> 1..mp]
          Prio,        \* [Reqs -> Nat]
          Configs,     \* manager configurations [mp |-> procs per machine available to tasks, maxp |-> parallelism limit (procs)]
          MaxMach,     \* bound on machines ever started (model bound)
          MaxStops     \* bound on stop events

Mach == 1..MaxMach

VARIABLES q, granted, health, load, need, pending, batches, nstarted, offered, finished, stops, peak,
          cfg          \* the manager's configuration: chosen when it is created, never changed

vars == <<q, granted, health, load, need, pending, batches, nstarted, offered, finished, stops, peak, cfg>>

MachProcs == cfg.mp
MaxP == cfg.maxp

Min(a,b) == IF a < b THEN a ELSE b
Max(a,b) == IF a > b THEN a ELSE b
Started == 1..nstarted
Managed == {m \in Started : health[m] \in {"ok","prob"}}
Ok == {m \in Started : health[m] = "ok"}
Free(m) == MachProcs - load[m]

(* the cluster-growth check at the bottom of Do's loop, applied after every event *)
Grow(needv, pendv, healthv, nst) ==
  LET have == Cardinality({m \in 1..nst : healthv[m] \in {"ok","prob"}}) * MachProcs IN
  IF have + pendv < needv /\ have + pendv < MaxP
  THEN LET np == Min(needv, MaxP) - have - pendv
           nm == Min((np + MachProcs - 1) \div MachProcs, 10)
       IN nm
  ELSE 0

After(needv, healthv, nst) ==
  LET nm == Grow(needv, pending, healthv, nst) IN
  /\ pending' = pending + nm * MachProcs
  /\ batches' = IF nm > 0 THEN Append(batches, nm) ELSE batches
  /\ peak' = Max(peak, Min(needv, MaxP))

(* schedule(): first-fit-decreasing with reservation.  ReqOrder / MachOrder are any
   linearisations consistent with the heaps' orders. *)
ReqBefore(a, b) == Prio[a] < Prio[b] \/ (Prio[a] = Prio[b] /\ Procs[a] > Procs[b])
\* The two heaps allow any linearisation that respects ReqBefore / decreasing free procs, ties in any order.
\* The walk of schedule() looks only at the keys (priority, procs; free procs) at each position, and in every
\* such linearisation position i holds a request / machine with the i'th key of the sorted multiset; so the
\* possible results are: any request and any machine whose keys are those at the position where the walk stops.
SortedReqs == SX!SortSeq(SX!SetToSeq(q), ReqBefore)
SortedMachs == SX!SortSeq(SX!SetToSeq(Ok), LAMBDA a, b : Free(a) > Free(b))
RECURSIVE PickIdx(_,_,_)
PickIdx(rs, ms, i) ==   \* the position at which schedule() stops with a pair, or 0
  IF i > Len(rs) \/ i > Len(ms) THEN 0
  ELSE IF Free(ms[i]) = 0 THEN 0
  ELSE IF Procs[rs[i]] <= Free(ms[i]) THEN i
  ELSE PickIdx(rs, ms, i+1)

Init == /\ q = {} /\ granted = [r \in Reqs |-> 0] /\ health = [m \in Mach |-> "none"]
        /\ load = [m \in Mach |-> 0] /\ need = 0 /\ pending = 0 /\ batches = <<>>
        /\ nstarted = 0 /\ offered = {} /\ finished = {} /\ stops = 0 /\ peak = 0
        /\ cfg \in Configs

Offer(r) == /\ r \notin offered
            /\ offered' = offered \cup {r}
            /\ q' = q \cup {r}
            /\ need' = need + Procs[r]
            /\ After(need + Procs[r], health, nstarted)
            /\ UNCHANGED <<granted, health, load, nstarted, finished, stops>>

Cancel(r) == /\ r \in q
             /\ q' = q \ {r}
             /\ need' = need - Procs[r]
             /\ finished' = finished \cup {r}
             /\ After(need - Procs[r], health, nstarted)
             /\ UNCHANGED <<granted, health, load, nstarted, offered, stops>>

Grant == LET rs == SortedReqs  ms == SortedMachs  k == PickIdx(rs, ms, 1) IN
         /\ k # 0
         /\ \E r \in q, m \in Ok :
              /\ Prio[r] = Prio[rs[k]] /\ Procs[r] = Procs[rs[k]] /\ Free(m) = Free(ms[k])
              /\ q' = q \ {r}
              /\ granted' = [granted EXCEPT ![r] = m]
              /\ load' = [load EXCEPT ![m] = @ + Procs[r]]
         /\ After(need, health, nstarted)
         /\ UNCHANGED <<health, need, nstarted, offered, finished, stops>>

Done(r, ek) ==   \* ek \in {"nil","remote","transport"}
  /\ granted[r] # 0 /\ r \notin finished
  /\ LET m == granted[r] IN
     /\ finished' = finished \cup {r}
     /\ need' = need - Procs[r]
     /\ load' = [load EXCEPT ![m] = @ - Procs[r]]
     /\ health' = [health EXCEPT ![m] =
                     IF ek = "transport" /\ @ = "ok" THEN "prob"
                     ELSE IF ek = "nil" /\ @ = "prob" THEN "ok" ELSE @]
     /\ After(need - Procs[r], health', nstarted)
  /\ UNCHANGED <<q, granted, nstarted, offered, stops>>

RemoveAt(sq, i) == [j \in 1..(Len(sq) - 1) |-> IF j < i THEN sq[j] ELSE sq[j + 1]]

\* one of the outstanding start batches returns (each batch is its own goroutine, so they may return in
\* any order) with k of its machines up; the rest failed to boot.  All of the batch stops being pending.
StartedBatch(i, k) ==
  /\ i \in DOMAIN batches
  /\ k \in 0..batches[i]
  /\ nstarted + k <= MaxMach
  /\ nstarted' = nstarted + k
  /\ health' = [m \in Mach |-> IF m \in (nstarted+1)..(nstarted+k) THEN "ok" ELSE health[m]]
  /\ LET pend1 == pending - MachProcs * batches[i]
         rest == RemoveAt(batches, i)
         nm == LET have == Cardinality({m \in 1..(nstarted+k) : health'[m] \in {"ok","prob"}}) * MachProcs IN
               IF have + pend1 < need /\ have + pend1 < MaxP
               THEN Min((Min(need, MaxP) - have - pend1 + MachProcs - 1) \div MachProcs, 10) ELSE 0
     IN /\ pending' = pend1 + nm * MachProcs
        /\ batches' = IF nm > 0 THEN Append(rest, nm) ELSE rest
  /\ peak' = Max(peak, Min(need, MaxP))
  /\ UNCHANGED <<q, granted, load, need, offered, finished, stops>>

\* a cancel that arrives after its request was granted (s.index < 0): nothing changes, but the loop still
\* falls through to the growth check (it can start more machines only when the last check was cut short
\* by the 10-machines-per-batch limit)
Recheck == /\ After(need, health, nstarted)
           /\ UNCHANGED <<q, granted, health, load, need, nstarted, offered, finished, stops>>

Stop(m) == /\ m \in Managed /\ stops < MaxStops
           /\ stops' = stops + 1
           /\ health' = [health EXCEPT ![m] = "lost"]
           /\ After(need, health', nstarted)
           /\ UNCHANGED <<q, granted, load, need, nstarted, offered, finished>>

ProbExpire(m) == /\ m \in Started /\ health[m] = "prob"
                 /\ health' = [health EXCEPT ![m] = "ok"]
                 /\ After(need, health', nstarted)
                 /\ UNCHANGED <<q, granted, load, need, nstarted, offered, finished, stops>>

Step == \/ \E r \in Reqs : Offer(r) \/ Cancel(r) \/ \E ek \in {"nil","remote","transport"} : Done(r, ek)
        \/ Grant
        \/ \E i \in 1..Len(batches), k \in 0..10 : StartedBatch(i, k)
        \/ Recheck
        \/ \E m \in Mach : Stop(m) \/ ProbExpire(m)

Next == Step /\ UNCHANGED cfg

Spec == Init /\ [][Next]_vars

-----------------------------------------------------------------------------
Outstanding(m) == {r \in Reqs : granted[r] = m /\ r \notin finished}
RECURSIVE SumProcs(_)
SumProcs(S) == IF S = {} THEN 0 ELSE LET r == CHOOSE x \in S : TRUE IN Procs[r] + SumProcs(S \ {r})

Capacity == \A m \in Started : load[m] >= 0 /\ load[m] <= MachProcs
Conservation == \A m \in Started : load[m] = SumProcs(Outstanding(m))
NeedAccounting == need = SumProcs(q) + SumProcs({r \in Reqs : granted[r] # 0 /\ r \notin finished})
ExclusiveAlone == \A m \in Started : \A r \in Outstanding(m) : Procs[r] = MachProcs => Outstanding(m) = {r}
PendingOK == pending >= 0
\* pending counts exactly the procs of the machines of the batches that have not yet returned, whether
\* their machines come up or not (a machine that fails to boot must not stay counted: seeded change C02-1)
RECURSIVE SumBatches(_)
SumBatches(bs) == IF bs = <<>> THEN 0 ELSE Head(bs) + SumBatches(Tail(bs))
PendingIsOutstanding == pending = MachProcs * SumBatches(batches)
NoOverstart == stops = 0 => Cardinality(Managed) * MachProcs + pending < peak + MachProcs
\* machines on probation or lost receive no new work (Grant only draws from Ok)
HealthyOnly == [][\A r \in Reqs : (granted[r] = 0 /\ granted'[r] # 0) => health[granted'[r]] = "ok"]_vars
=============================================================================
