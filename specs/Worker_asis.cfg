SPECIFICATION Spec
CONSTANTS
 Reqs = {r1, r2, r3}
 MaxFail = 1
 MaxDiscards = 1
 CancelMarksErr = TRUE
INVARIANTS TypeOK OneExecution NoRunDuringDiscard OkHasOutput ReplyOk
CHECK_DEADLOCK FALSE
