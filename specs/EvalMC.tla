---- MODULE EvalMC ----
EXTENDS Eval
(* Shape library (TaskGraph of DESIGN.md §3). A graph is [tasks, phase, deps, roots]. *)
Self(S) == [t \in S |-> <<t>>]
Chain3(R) == [tasks |-> {"a","b","c"}, phase |-> Self({"a","b","c"}),
              deps |-> [t \in {"a","b","c"} |-> CASE t = "a" -> <<"b">> [] t = "b" -> <<"c">> [] OTHER -> <<>>],
              roots |-> R]
Diamond(R) == [tasks |-> {"a","b","c","d"}, phase |-> Self({"a","b","c","d"}),
               deps |-> [t \in {"a","b","c","d"} |-> CASE t = "a" -> <<"b","c">> [] t = "b" -> <<"d">> [] t = "c" -> <<"d">> [] OTHER -> <<>>],
               roots |-> R]
\* two roots sharing a dependency
Vee(R) == [tasks |-> {"a","b","c"}, phase |-> Self({"a","b","c"}),
           deps |-> [t \in {"a","b","c"} |-> IF t \in {"a","b"} THEN <<"c">> ELSE <<>>],
           roots |-> R]
\* 2x2 shuffle: consumers c1,c2 each depend on the phase {p1,p2}
Shuf(R) == [tasks |-> {"c1","c2","p1","p2"},
            phase |-> [t \in {"c1","c2","p1","p2"} |-> IF t \in {"p1","p2"} THEN <<"p1","p2">> ELSE <<t>>],
            deps |-> [t \in {"c1","c2","p1","p2"} |-> IF t \in {"c1","c2"} THEN <<"p1">> ELSE <<>>],
            roots |-> R]
\* shuffle consumer on top of a pipelined producer phase which itself depends on a source
Shuf3(R) == [tasks |-> {"c1","p1","p2","s"},
            phase |-> [t \in {"c1","p1","p2","s"} |-> IF t \in {"p1","p2"} THEN <<"p1","p2">> ELSE <<t>>],
            deps |-> [t \in {"c1","p1","p2","s"} |-> CASE t = "c1" -> <<"p1">> [] t \in {"p1","p2"} -> <<"s">> [] OTHER -> <<>>],
            roots |-> R]
One(r) == [e \in {"e1"} |-> r]
Two(r1, r2) == [e \in {"e1","e2"} |-> IF e = "e1" THEN r1 ELSE r2]

ShapesChain1   == {Chain3(One(<<"a">>))}
ShapesChain2   == {Chain3(Two(<<"a">>, <<"a">>)), Chain3(Two(<<"a">>, <<"b">>))}
ShapesDiamond1 == {Diamond(One(<<"a">>))}
ShapesVee1     == {Vee(One(<<"a","b">>))}
ShapesVee2     == {Vee(Two(<<"a">>, <<"b">>)), Vee(Two(<<"a","b">>, <<"b">>))}
ShapesShuf1    == {Shuf(One(<<"c1","c2">>)), Shuf3(One(<<"c1">>))}
ShapesShuf2    == {Shuf(Two(<<"c1","c2">>, <<"c1">>))}
ShapesSmall1   == ShapesChain1 \cup ShapesDiamond1 \cup ShapesVee1 \cup ShapesShuf1
ShapesSmall2   == ShapesChain2 \cup ShapesVee2
ShapesTwoQuick == {Chain3(Two(<<"a">>, <<"a">>)), Vee(Two(<<"a">>, <<"b">>))}
ShapesTwo      == ShapesSmall2 \cup ShapesShuf2 \cup {Diamond(Two(<<"a">>, <<"b">>)), Diamond(Two(<<"a">>, <<"a">>))}
ShapesAll      == ShapesSmall1 \cup ShapesSmall2 \cup ShapesShuf2 \cup {Diamond(Two(<<"a">>, <<"b">>))}

\* tiny shapes for runs that must reach MaxLost = 5 consecutive losses
Pair(R) == [tasks |-> {"a","b"}, phase |-> Self({"a","b"}),
            deps |-> [t \in {"a","b"} |-> IF t = "a" THEN <<"b">> ELSE <<>>], roots |-> R]
ShapesLossy == {Pair(One(<<"a">>)), Pair(Two(<<"a">>, <<"a">>))}
\* liveness (Terminates under FairSpec): one evaluation of a chain, a diamond and a 2x2 shuffle
ShapesLive == ShapesChain1 \cup ShapesDiamond1 \cup {Shuf(One(<<"c1","c2">>))}
====
