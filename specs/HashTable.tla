----------------------------- MODULE HashTable -----------------------------
(***************************************************************************)
(* The combining hash table of exec/combiner.go (combiningFrame) exactly as *)
(* coded -- power-of-two open addressing, slot = hash & mask, probe         *)
(* idx' = (idx + try) & mask with try = 1,2,..., swap-in on an empty slot,  *)
(* combine on an equal key, doubling at load > 0.7 with re-insertion of the *)
(* old slots in index order, compaction in slot order -- and the combiner   *)
(* on top of it (C09).  The hash function itself is imported: the harness   *)
(* logs hash(key) & 0xffff for every key it feeds.                          *)
(*                                                                          *)
(* Mode "frame": every recorded Combine/Compact is replayed through the     *)
(* model row by row and the WHOLE real table (cap, len, hits and contents   *)
(* of every slot) must equal the model's afterwards (conformance).          *)
(* Mode "combiner": the rows read back must be exactly one row per distinct *)
(* key, ascending, carrying the fold of its values, and the spill directory *)
(* must be empty afterwards (property).                                     *)
(***************************************************************************)
EXTENDS Integers, Sequences, FiniteSets, TLC, Json, IOUtils

Recs == ndJsonDeserialize("c09_records.ndjson")

VARIABLES s, i,      \* session, step
          slot,      \* slot[x] = <<>> (empty) or <<hits, key, value>>, x in 0..cap-1 ; key is a sequence
          len, cap,
          fed,       \* all rows fed in this session (evaluated once, at Begin)
          dead, bad
vars == <<s, i, slot, len, cap, fed, dead, bad>>

Thr(c) == (7 * c) \div 10
RangeSeq(q) == {q[j] : j \in DOMAIN q}

KeyOf(r, row) == SubSeq(row, 1, r.nkey)
ValOf(r, row) == row[r.nkey + 1]
RECURSIVE KeyStr(_)
KeyStr(k) == IF Len(k) = 1 THEN ToString(k[1]) ELSE ToString(k[1]) \o "," \o KeyStr(Tail(k))
Hash(r, k) == r.hashes[KeyStr(k)]

Empty(c) == [x \in 0..(c - 1) |-> <<>>]

\* find the slot for key k in table t of capacity c: first empty slot or slot holding k on the probe path
RECURSIVE Probe(_, _, _, _, _)
Probe(t, c, k, idx, try) ==
  IF t[idx] = <<>> \/ t[idx][2] = k THEN idx
  ELSE Probe(t, c, k, (idx + try) % c, try + 1)

\* state of the table as a record, threaded through row insertion
InsertRow(r, T, row) ==
  LET k == KeyOf(r, row)
      v == ValOf(r, row)
      idx == Probe(T.slot, T.cap, k, Hash(r, k) % T.cap, 1)
  IN IF T.slot[idx] = <<>>
     THEN LET t1 == [T.slot EXCEPT ![idx] = <<1, k, v>>]
              l1 == T.len + 1
          IN IF l1 <= Thr(T.cap) THEN [slot |-> t1, len |-> l1, cap |-> T.cap]
             ELSE \* grow: double and re-insert in slot order (keys are unique: only empty-slot probing)
                  LET c2 == 2 * T.cap
                      RECURSIVE Re(_, _)
                      Re(x, t) == IF x = T.cap THEN t
                                  ELSE IF t1[x] = <<>> THEN Re(x + 1, t)
                                  ELSE LET RECURSIVE Free(_, _)
                                           Free(j, try) == IF t[j] = <<>> THEN j ELSE Free((j + try) % c2, try + 1)
                                           j0 == Free(Hash(r, t1[x][2]) % c2, 1)
                                       IN Re(x + 1, [t EXCEPT ![j0] = t1[x]])
                  IN [slot |-> Re(0, Empty(c2)), len |-> l1, cap |-> c2]
     ELSE [slot |-> [T.slot EXCEPT ![idx] = <<@[1] + 1, k, @[3] + v>>], len |-> T.len, cap |-> T.cap]

RECURSIVE InsertAll(_, _, _)
InsertAll(r, T, rows) == IF rows = <<>> THEN T ELSE InsertAll(r, InsertRow(r, T, Head(rows)), Tail(rows))

\* compaction: occupied slots in index order
RECURSIVE Occupied(_, _, _)
Occupied(t, c, x) == IF x = c THEN <<>>
                     ELSE IF t[x] = <<>> THEN Occupied(t, c, x + 1)
                     ELSE <<t[x]>> \o Occupied(t, c, x + 1)

\* the real table as logged: sequence of <<index, hits, key..., value>>
RealSlot(r, row) == <<row[2], SubSeq(row, 3, 2 + r.nkey), row[3 + r.nkey]>>
TableMatches(r, tb, T) ==
  /\ tb.cap = T.cap /\ tb.len = T.len
  /\ Len(tb.slots) = Len(Occupied(T.slot, T.cap, 0))
  /\ \A j \in DOMAIN tb.slots : tb.slots[j][1] \in 0..(T.cap - 1) /\ T.slot[tb.slots[j][1]] = RealSlot(r, tb.slots[j])

\* the fold of everything fed, per key, ascending
AllRows(r) == LET RECURSIVE Cat(_) Cat(q) == IF q = <<>> THEN <<>> ELSE (IF Head(q).op[1] = "combine" THEN Head(q).op[2] ELSE <<>>) \o Cat(Tail(q)) IN Cat(r.steps)

Init == s = 1 /\ i = 0 /\ slot = <<>> /\ len = 0 /\ cap = 0 /\ fed = <<>> /\ dead = FALSE /\ bad = <<>>

Fail(r, what, at) == [id |-> r.id, mode |-> r.mode, what |-> what, at |-> at, init |-> r.init, scratch |-> r.scratch, target |-> r.target]

Begin == /\ s <= Len(Recs) /\ i = 0
         /\ slot' = Empty(IF Recs[s].init > 0 THEN Recs[s].init ELSE 1) /\ len' = 0
         /\ cap' = IF Recs[s].init > 0 THEN Recs[s].init ELSE 1
         /\ fed' = AllRows(Recs[s])
         /\ dead' = FALSE /\ i' = 1 /\ UNCHANGED <<s, bad>>

\* mode frame: one recorded op
FrameStep ==
  /\ s <= Len(Recs) /\ Recs[s].mode = "frame" /\ i >= 1 /\ i <= Len(Recs[s].steps)
  /\ LET r == Recs[s]
         st == r.steps[i]
         T == [slot |-> slot, len |-> len, cap |-> cap]
     IN IF dead THEN UNCHANGED <<slot, len, cap, dead, bad>>
        ELSE IF st.op[1] = "combine" THEN
             LET T2 == InsertAll(r, T, st.op[2])
                 ok == TableMatches(r, st.table, T2)
             IN /\ slot' = T2.slot /\ len' = T2.len /\ cap' = T2.cap
                /\ dead' = ~ok
                /\ bad' = IF ok THEN bad ELSE Append(bad, Fail(r, "TableAsModel", i))
        ELSE \* compact
             LET occ == Occupied(slot, cap, 0)
                 want == [j \in DOMAIN occ |-> occ[j][2] \o <<occ[j][3]>>]
                 ok == st.out = want /\ st.table.len = 0 /\ st.table.slots = <<>> /\ st.table.cap = cap
             IN /\ slot' = Empty(cap) /\ len' = 0 /\ cap' = cap
                /\ dead' = ~ok
                /\ bad' = IF ok THEN bad ELSE Append(bad, Fail(r, "CompactAsModel", i))
  /\ i' = i + 1 /\ s' = s /\ UNCHANGED fed

LessKey(a, b) == \/ a[1] < b[1] \/ (Len(a) > 1 /\ a[1] = b[1] /\ a[2] < b[2])
SumFor(r, rows, k) == LET RECURSIVE S(_) S(q) == IF q = <<>> THEN 0 ELSE (IF KeyOf(r, Head(q)) = k THEN ValOf(r, Head(q)) ELSE 0) + S(Tail(q)) IN S(rows)

End ==
  /\ s <= Len(Recs)
  /\ \/ (Recs[s].mode = "frame" /\ i = Len(Recs[s].steps) + 1)
     \/ (Recs[s].mode = "combiner" /\ i = 1)
  /\ LET r == Recs[s]
         keys == {KeyOf(r, fed[j]) : j \in DOMAIN fed}
         got == r.rows
         f == IF "panic" \in DOMAIN r THEN <<Fail(r, "Panic", 0)>>
              ELSE IF "err" \in DOMAIN r THEN
                   \* an injected failure to open the spill files (descriptor limit) may fail Reader(), but the
                   \* spill files must still be removed
                   (IF r.fdlimit > 0 THEN (IF r.leftover = <<>> THEN <<>> ELSE <<Fail(r, "SpillFilesRemoved", 0)>>)
                    ELSE <<Fail(r, "UnexpectedError", 0)>>)
              ELSE IF r.mode = "frame" THEN <<>>
              ELSE (IF Len(got) = Cardinality(keys) /\ {KeyOf(r, got[j]) : j \in DOMAIN got} = keys
                    THEN <<>> ELSE <<Fail(r, "OneRowPerKey", 0)>>)
                   \o (IF \A j \in 1..(Len(got) - 1) : LessKey(KeyOf(r, got[j]), KeyOf(r, got[j + 1]))
                       THEN <<>> ELSE <<Fail(r, "AscendingKeys", 0)>>)
                   \o (IF \A j \in DOMAIN got : ValOf(r, got[j]) = SumFor(r, fed, KeyOf(r, got[j]))
                       THEN <<>> ELSE <<Fail(r, "ValueIsFoldOfAllValues", 0)>>)
                   \o (IF r.leftover = <<>> THEN <<>> ELSE <<Fail(r, "SpillFilesRemoved", 0)>>)
     IN bad' = bad \o f
  /\ s' = s + 1 /\ i' = 0 /\ UNCHANGED <<slot, len, cap, fed, dead>>

Next == Begin \/ FrameStep \/ End
Spec == Init /\ [][Next]_vars
Dump == s <= Len(Recs) \/ JsonSerialize("c09_verdict.json", [n |-> Len(Recs), bad |-> bad])
=============================================================================
