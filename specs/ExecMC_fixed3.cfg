SPECIFICATION Spec
CONSTANTS
 Tasks <- T3
 Deps <- D3
 Faulty <- NoFaulty
 Roots <- R3
 Mach <- M3
 MaxKills = 2
 MaxDiscards = 1
 MaxLost = 2
 Variant = "atomic"
INVARIANTS TypeOK NoOrphanRunning NoOrphanWaiting OkIsOwned OwnedIsStored
CHECK_DEADLOCK FALSE
