----------------------------- MODULE ClusterMon -----------------------------
(***************************************************************************)
(* Monitor for the machine manager (C14) over                               *)
(*  (a) recorded placement decisions of the real schedule() for small       *)
(*      request queues / machine loads ("place" records), and               *)
(*  (b) recorded event streams of a live machineManager ("live" records):   *)
(*      harness events HOffer/HCancel/HDone/HKill and manager hook events   *)
(*      MgrOffer/MgrCancel/MgrGrant/MgrDone/MgrStopped/MgrProbationExpire/  *)
(*      MgrStart/MgrStarted/MgrSelect with snapshots.                       *)
(* The observer state is a ledger kept from the events: per machine the     *)
(* procs of grants not yet returned, health as implied by Done errors,      *)
(* stops and probation expiry; the request queue; need.                     *)
(***************************************************************************)
EXTENDS Integers, Sequences, FiniteSets, TLC, Json, IOUtils
SX == INSTANCE SequencesExt

Place == ndJsonDeserialize("c14_place.ndjson")
Live == ndJsonDeserialize("c14_live.ndjson")

VARIABLES ph,      \* "place" | "live" | "done"
          s, i,
          load,    \* machine -> procs outstanding (ledger)
          max,     \* machine -> capacity
          hl,      \* machine -> "ok" | "prob" | "lost"
          q,       \* queued requests: rid -> [prio, procs]
          out,     \* granted, not yet done: rid -> [m, procs]
          started, \* machines ever started
          pend,    \* procs of machines being started (ledger from MgrStart/MgrStarted)
          peak,    \* largest min(need, maxp) seen
          bad
vars == <<ph, s, i, load, max, hl, q, out, started, pend, peak, bad>>

Min(a, b) == IF a < b THEN a ELSE b
Max(a, b) == IF a > b THEN a ELSE b
RangeSeq(x) == {x[j] : j \in DOMAIN x}
RECURSIVE SumF(_, _)
SumF(f, S) == IF S = {} THEN 0 ELSE LET x == CHOOSE y \in S : TRUE IN f[x] + SumF(f, S \ {x})

-----------------------------------------------------------------------------
(* placement: the documented reservation algorithm of schedule() *)
Perms(S) == {p \in [1..Cardinality(S) -> S] : \A a, b \in 1..Cardinality(S) : a # b => p[a] # p[b]}
ReqBefore(R, a, b) == R[a][1] < R[b][1] \/ (R[a][1] = R[b][1] /\ R[a][2] > R[b][2])
FreeOf(M, m) == M[m][1] - M[m][2]
RECURSIVE Pick(_, _, _, _, _)
Pick(R, M, rs, ms, k) ==
  IF k > Len(rs) \/ k > Len(ms) THEN <<0, 0>>
  ELSE IF FreeOf(M, ms[k]) = 0 THEN <<0, 0>>
  ELSE IF R[rs[k]][2] <= FreeOf(M, ms[k]) THEN <<rs[k], ms[k]>>
  ELSE Pick(R, M, rs, ms, k + 1)
\* all results the algorithm may give, over the orders the two priority queues allow
Picks(R, M) ==
  {Pick(R, M, rs, ms, 1) :
     rs \in {p \in Perms(DOMAIN R) : \A a, b \in DOMAIN p : a < b => ~ReqBefore(R, p[b], p[a])},
     ms \in {p \in Perms(DOMAIN M) : \A a, b \in DOMAIN p : a < b => FreeOf(M, p[a]) >= FreeOf(M, p[b])}}

Init == /\ ph = "place" /\ s = 1 /\ i = 0 /\ load = <<>> /\ max = <<>> /\ hl = <<>> /\ q = <<>> /\ out = <<>>
        /\ started = {} /\ pend = 0 /\ peak = 0 /\ bad = <<>>

PlaceStep ==
  /\ ph = "place" /\ s <= Len(Place)
  /\ LET r == Place[s]
         got == <<r.req + 1, r.mach + 1>>
         ok == /\ got \in Picks(r.reqs, r.machs)
               /\ r.qlen = Len(r.reqs) /\ r.mlen = Len(r.machs)     \* queues restored
     IN bad' = IF ok THEN bad ELSE Append(bad, [id |-> r.id, mode |-> "place", what |-> "PlacementAsDocumented", seq |-> 0])
  /\ s' = s + 1 /\ UNCHANGED <<ph, i, load, max, hl, q, out, started, pend, peak>>

PlaceEnd == /\ ph = "place" /\ s > Len(Place) /\ ph' = "live" /\ s' = 1 /\ i' = 0
            /\ UNCHANGED <<load, max, hl, q, out, started, pend, peak, bad>>

-----------------------------------------------------------------------------
Fail(r, ev, what) == [id |-> r.id, mode |-> "live", what |-> what, seq |-> ev.seq]
Upd(f, k, v) == [x \in (DOMAIN f) \cup {k} |-> IF x = k THEN v ELSE f[x]]
Del(f, k) == [x \in (DOMAIN f) \ {k} |-> f[x]]
NeedLedger == SumF([x \in DOMAIN q |-> q[x][2]], DOMAIN q) + SumF([x \in DOMAIN out |-> out[x][2]], DOMAIN out)

LiveBegin == /\ ph = "live" /\ s <= Len(Live) /\ i = 0
             /\ load' = <<>> /\ max' = <<>> /\ hl' = <<>> /\ q' = <<>> /\ out' = <<>> /\ started' = {} /\ pend' = 0 /\ peak' = 0
             /\ i' = 1 /\ UNCHANGED <<ph, s, bad>>

LiveStep ==
  /\ ph = "live" /\ s <= Len(Live) /\ i >= 1 /\ i <= Len(Live[s].events)
  /\ LET r == Live[s]
         ev == r.events[i]
         e == ev.ev
     IN
     CASE e = "MgrOffer" ->
            /\ q' = Upd(q, ev.rid, <<ev.prio, ev.procs>>)
            /\ bad' = IF ev.need = NeedLedger + ev.procs THEN bad ELSE Append(bad, Fail(r, ev, "NeedAccounting"))
            /\ peak' = Max(peak, Min(ev.need, r.maxp))
            /\ UNCHANGED <<load, max, hl, out, started, pend>>
       [] e = "MgrCancel" ->
            /\ q' = Del(q, ev.rid)
            /\ bad' = IF ev.rid \in DOMAIN q /\ ev.need = NeedLedger - ev.procs THEN bad ELSE Append(bad, Fail(r, ev, "NeedAccounting"))
            /\ UNCHANGED <<load, max, hl, out, started, pend, peak>>
       [] e = "MgrGrant" ->
            LET m == ev.m
                known == m \in DOMAIN load /\ ev.rid \in DOMAIN q
                capOK == known /\ load[m] + ev.procs <= max[m] /\ ev.load = load[m] + ev.procs /\ ev.max = max[m]
                healthy == known /\ hl[m] = "ok" /\ ev.health = 0
                \* placement: the granted pair must be a result of the documented algorithm on the ledger state
                okm == {x \in DOMAIN hl : hl[x] = "ok"}
                RS == [x \in DOMAIN q |-> q[x]]
                \* (the walk of schedule() looks only at the keys at each position of the two sorted queues, so the
                \* possible results are the requests and machines whose keys equal those at the stopping position)
                rs == SX!SortSeq(SX!SetToSeq(DOMAIN q), LAMBDA a, b : ReqBefore(RS, a, b))
                mo == SX!SortSeq(SX!SetToSeq(okm), LAMBDA a, b : (max[a] - load[a]) > (max[b] - load[b]))
                kstar == LET RECURSIVE P(_)
                             P(k) == IF k > Len(rs) \/ k > Len(mo) THEN 0
                                     ELSE IF max[mo[k]] - load[mo[k]] = 0 THEN 0
                                     ELSE IF q[rs[k]][2] <= max[mo[k]] - load[mo[k]] THEN k
                                     ELSE P(k + 1)
                         IN P(1)
                placeOK == known =>
                   /\ kstar # 0
                   /\ q[ev.rid] = q[rs[kstar]]
                   /\ max[m] - load[m] = max[mo[kstar]] - load[mo[kstar]]
                fails == (IF known THEN <<>> ELSE <<Fail(r, ev, "GrantOfKnownRequestAndMachine")>>)
                         \o (IF ~known \/ capOK THEN <<>> ELSE <<Fail(r, ev, "NeverOversubscribed")>>)
                         \o (IF ~known \/ healthy THEN <<>> ELSE <<Fail(r, ev, "NoWorkForProbationOrStopped")>>)
                         \o (IF placeOK THEN <<>> ELSE <<Fail(r, ev, "PriorityOrderPlacement")>>)
            IN /\ bad' = bad \o fails
               /\ load' = IF known THEN [load EXCEPT ![m] = @ + ev.procs] ELSE load
               /\ out' = IF known THEN Upd(out, ev.rid, <<m, ev.procs>>) ELSE out
               /\ q' = IF known THEN Del(q, ev.rid) ELSE q
               /\ UNCHANGED <<max, hl, started, pend, peak>>
       [] e = "HDone" -> UNCHANGED <<load, max, hl, q, out, started, pend, peak, bad>>
       [] e = "MgrDone" ->
            LET m == ev.m
                rids == {x \in DOMAIN out : out[x][1] = m /\ out[x][2] = ev.procs}
                one == IF rids = {} THEN -99 ELSE CHOOSE x \in rids : TRUE
                h2 == IF hl[m] = "lost" THEN "lost"
                      ELSE IF ev.err = "transport" /\ hl[m] = "ok" THEN "prob"
                      ELSE IF ev.err = "nil" /\ hl[m] = "prob" THEN "ok" ELSE hl[m]
                ok == one # -99 /\ ev.load = load[m] - ev.procs /\ ev.need = NeedLedger - ev.procs
            IN /\ bad' = IF ok THEN bad ELSE Append(bad, Fail(r, ev, "ProcsReturnedOnce"))
               /\ load' = IF one # -99 THEN [load EXCEPT ![m] = @ - ev.procs] ELSE load
               /\ out' = IF one # -99 THEN Del(out, one) ELSE out
               /\ hl' = [hl EXCEPT ![m] = h2]
               /\ UNCHANGED <<max, q, started, pend, peak>>
       [] e = "MgrProbationExpire" ->
            /\ bad' = IF ev.m \in DOMAIN hl /\ hl[ev.m] = "prob" THEN bad ELSE Append(bad, Fail(r, ev, "OnlyProbationExpires"))
            /\ hl' = IF ev.m \in DOMAIN hl /\ hl[ev.m] = "prob" THEN [hl EXCEPT ![ev.m] = "ok"] ELSE hl
            /\ UNCHANGED <<load, max, q, out, started, pend, peak>>
       [] e = "MgrStopped" ->
            /\ hl' = IF ev.m \in DOMAIN hl THEN [hl EXCEPT ![ev.m] = "lost"] ELSE hl
            /\ UNCHANGED <<load, max, q, out, started, pend, peak, bad>>
       [] e = "MgrStart" ->
            \* no more machines than demand and the parallelism limit justify
            LET have == Cardinality({x \in DOMAIN hl : hl[x] # "lost"}) * ev.machprocs
                just == Min(NeedLedger, ev.maxp) - have - pend      \* procs still missing
                okStart == just > 0 /\ ev.nmach * ev.machprocs < just + ev.machprocs /\ ev.nmach <= 10
            IN /\ bad' = (IF okStart THEN bad ELSE Append(bad, Fail(r, ev, "NoMoreMachinesThanJustified")))
                          \o (IF ev.pending = pend + ev.nmach * ev.machprocs THEN <<>> ELSE <<Fail(r, ev, "PendingCountsOnlyMachinesStillStarting")>>)
               /\ pend' = pend + ev.nmach * ev.machprocs
               /\ UNCHANGED <<load, max, hl, q, out, started, peak>>
       [] e = "MgrStarted" ->
            /\ load' = [x \in (DOMAIN load) \cup RangeSeq(ev.machines) |-> IF x \in DOMAIN load THEN load[x] ELSE 0]
            /\ max' = [x \in (DOMAIN max) \cup RangeSeq(ev.machines) |->
                          IF x \in DOMAIN max THEN max[x] ELSE ev.maxes[CHOOSE j \in DOMAIN ev.machines : ev.machines[j] = x]]
            /\ hl' = [x \in (DOMAIN hl) \cup RangeSeq(ev.machines) |-> IF x \in DOMAIN hl THEN hl[x] ELSE "ok"]
            /\ started' = started \cup RangeSeq(ev.machines)
            \* a batch of machines has finished starting: whether they came up or not, none of them is
            \* pending any longer (ledger: pend counts the procs of machines still being started)
            /\ LET exp == pend - (Len(ev.machines) + ev.nfail) * ev.machprocs IN
               /\ pend' = exp
               /\ bad' = (IF ev.pending >= 0 THEN bad ELSE Append(bad, Fail(r, ev, "PendingNonNegative")))
                          \o (IF ev.pending = exp THEN <<>> ELSE <<Fail(r, ev, "PendingCountsOnlyMachinesStillStarting")>>)
            /\ UNCHANGED <<q, out, peak>>
       [] e = "MgrSelect" ->
            \* snapshot: the manager's view must agree with the ledger
            LET okc == Cardinality({x \in DOMAIN hl : hl[x] = "ok"})
                prc == Cardinality({x \in DOMAIN hl : hl[x] = "prob"})
                ok == ev.need = NeedLedger /\ ev.nok = okc /\ ev.nprob = prc /\ ev.nq = Cardinality(DOMAIN q)
            IN /\ bad' = IF ok THEN bad ELSE Append(bad, Fail(r, ev, "LedgerAgreesWithManager"))
               /\ UNCHANGED <<load, max, hl, q, out, started, pend, peak>>
       [] e = "HStall" ->
            /\ bad' = Append(bad, Fail(r, ev, "FittingRequestGrantedEventually"))
            /\ UNCHANGED <<load, max, hl, q, out, started, pend, peak>>
       [] OTHER -> UNCHANGED <<load, max, hl, q, out, started, pend, peak, bad>>
  /\ i' = i + 1 /\ UNCHANGED <<ph, s>>

\* at the end of a session everything is quiescent: a queued request that fits on an available machine
\* must have been granted
LiveEnd ==
  /\ ph = "live" /\ s <= Len(Live) /\ i = Len(Live[s].events) + 1
  /\ LET r == Live[s]
         okm == {x \in DOMAIN hl : hl[x] = "ok"}
         starving == \E x \in DOMAIN q : \E m \in okm :
                        /\ q[x][2] <= max[m] - load[m]
                        /\ \A y \in DOMAIN q : ~ReqBefore([z \in DOMAIN q |-> q[z]], y, x)   \* x is (one of) the first in priority order
                        /\ \A m2 \in okm : max[m2] - load[m2] <= max[m] - load[m]               \* m is the least loaded
         \* the run of a real session has returned (r.ended): each of its tasks has ended -- succeeded, failed or
         \* lost -- so every proc that was handed out must have been returned
         leaked == r.ended /\ DOMAIN out # {}
     IN bad' = (IF starving /\ ~r.stalled THEN Append(bad, [id |-> r.id, mode |-> "live", what |-> "FittingRequestGrantedEventually", seq |-> 0]) ELSE bad)
                \o (IF leaked THEN <<[id |-> r.id, mode |-> "live", what |-> "ProcsReturnedWhenTaskEnds", seq |-> 0]>> ELSE <<>>)
  /\ s' = s + 1 /\ i' = 0 /\ UNCHANGED <<ph, load, max, hl, q, out, started, pend, peak>>

LiveDone == /\ ph = "live" /\ s > Len(Live) /\ ph' = "done" /\ UNCHANGED <<s, i, load, max, hl, q, out, started, pend, peak, bad>>

Next == PlaceStep \/ PlaceEnd \/ LiveBegin \/ LiveStep \/ LiveEnd \/ LiveDone
Spec == Init /\ [][Next]_vars
Dump == ph # "done" \/ JsonSerialize("c14_verdict.json", [n |-> Len(Place) + Len(Live), bad |-> bad])
=============================================================================
