SPECIFICATION Spec
CONSTANTS
 MaxLost = 5
INVARIANTS Dump
CHECK_DEADLOCK FALSE
