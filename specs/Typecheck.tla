----------------------------- MODULE Typecheck -----------------------------
(***************************************************************************)
(* The documented type schemas of the operator constructors (doc comments   *)
(* of slice.go, reduce.go, cogroup.go, reshuffle.go, reshard.go) stated     *)
(* independently over an abstract type universe (C18).  Types are names;    *)
(* a slice type is [cols, prefix, nshard]; a function signature is          *)
(* [ins, outs, variadic, notfunc] (a leading context parameter is optional  *)
(* and not part of the schema).  Accepts(...) is the schema; Result(...)    *)
(* the documented type, key prefix and shard count of the returned slice.   *)
(* Every recorded constructor call is one step: accepted iff the schema     *)
(* holds; a rejection must be a typecheck error attributed to the caller's  *)
(* file and line (never another kind of panic).                             *)
(***************************************************************************)
EXTENDS Integers, Sequences, FiniteSets, TLC, Json, IOUtils

Recs == ndJsonDeserialize("c18_records.ndjson")
VARIABLES s, bad
vars == <<s, bad>>

Hashable == {"int", "int64", "string", "bool", "float64"}      \* types with registered hash and compare operations
Comparable == Hashable
AccumKey == {"int", "int64", "string"}
Elem(t) == CASE t = "[]int" -> "int" [] t = "[]string" -> "string" [] t = "[]bool" -> "bool" [] t = "[]pair" -> "pair"
             [] t = "[][]int" -> "[]int" [] OTHER -> ""
IsSlice(t) == Elem(t) # ""
Vec(t) == CASE t = "int" -> "[]int" [] t = "string" -> "[]string" [] t = "bool" -> "[]bool" [] t = "pair" -> "[]pair"
            [] t = "[]int" -> "[][]int" [] OTHER -> "?"
Assignable(a, b) == a = b \/ b = "iface"

\* ins without an optional leading context parameter
Ins(g) == IF Len(g.ins) > 0 /\ g.ins[1] = "ctx" THEN Tail(g.ins) ELSE g.ins

CanApply(g, cols) ==
  LET ins == Ins(g) IN
  IF g.variadic
  THEN /\ Len(ins) >= 1 /\ Len(cols) >= Len(ins) - 1
       /\ \A k \in 1..(Len(ins) - 1) : Assignable(cols[k], ins[k])
       /\ \A k \in Len(ins)..Len(cols) : Assignable(cols[k], Elem(ins[Len(ins)]))
  ELSE Len(cols) = Len(ins) /\ \A k \in DOMAIN cols : Assignable(cols[k], ins[k])

KeysOK(sl) == \A k \in 1..sl.prefix : sl.cols[k] \in Hashable /\ sl.cols[k] \in Comparable

Accepts(r) ==
  LET c == r.ctor
      sl == r.slices[1]
      g == r.sig
      isf == ~g.notfunc
  IN CASE c = "map" -> isf /\ CanApply(g, sl.cols) /\ Len(g.outs) >= 1
       [] c = "filter" -> isf /\ CanApply(g, sl.cols) /\ g.outs = <<"bool">>
       [] c = "flatmap" -> isf /\ CanApply(g, sl.cols) /\ \A k \in DOMAIN g.outs : IsSlice(g.outs[k])
       [] c = "fold" -> /\ isf /\ Len(sl.cols) >= 2 /\ sl.cols[1] \in Hashable /\ sl.cols[1] \in AccumKey
                        /\ Len(g.outs) = 1 /\ ~g.variadic
                        /\ Ins(g) = <<g.outs[1]>> \o SubSeq(sl.cols, 2, Len(sl.cols))
       [] c = "reduce" -> /\ Len(sl.cols) - sl.prefix = 1 /\ KeysOK(sl) /\ isf /\ ~g.variadic
                          /\ LET v == sl.cols[Len(sl.cols)] IN Ins(g) = <<v, v>> /\ g.outs = <<v>>
       [] c = "repartition" -> isf /\ ~g.variadic /\ Ins(g) = <<"int">> \o sl.cols /\ g.outs = <<"int">>
       [] c \in {"reshuffle", "reshard"} -> KeysOK(sl)
       [] c = "head" -> TRUE
       [] c = "prefixed" -> r.n >= 1 /\ r.n <= Len(sl.cols)
       [] c = "cogroup" ->
            /\ \A k \in DOMAIN r.slices : Len(r.slices[k].cols) >= 1
            /\ \A k \in DOMAIN r.slices : /\ r.slices[k].prefix = sl.prefix
                                          /\ SubSeq(r.slices[k].cols, 1, sl.prefix) = SubSeq(sl.cols, 1, sl.prefix)
            /\ KeysOK(sl)
       [] c = "readerfunc" -> /\ isf /\ ~g.variadic /\ Len(Ins(g)) >= 3 /\ Ins(g)[1] = "int"
                              /\ g.outs = <<"int", "error">>
                              /\ \A k \in 3..Len(Ins(g)) : IsSlice(Ins(g)[k])
       [] c = "writerfunc" -> /\ isf /\ ~g.variadic /\ Len(Ins(g)) = 3 + Len(sl.cols) /\ Ins(g)[1] = "int" /\ Ins(g)[3] = "error"
                              /\ \A k \in DOMAIN sl.cols : Ins(g)[3 + k] = Vec(sl.cols[k])
                              /\ g.outs = <<"error">>
       [] OTHER -> FALSE

RECURSIVE Concat(_)
Concat(q) == IF q = <<>> THEN <<>> ELSE Head(q) \o Concat(Tail(q))
MaxOf(S) == CHOOSE x \in S : \A y \in S : y <= x

Result(r) ==
  LET c == r.ctor  sl == r.slices[1]  g == r.sig IN
  \* the key prefix of the result of Map/Flatmap/Fold over an input with a multi-column prefix is not documented: -1 = unchecked
  CASE c = "map" -> [cols |-> g.outs, prefix |-> IF sl.prefix = 1 THEN 1 ELSE -1, nshard |-> sl.nshard]
    [] c = "flatmap" -> [cols |-> [k \in DOMAIN g.outs |-> Elem(g.outs[k])], prefix |-> IF sl.prefix = 1 THEN 1 ELSE -1, nshard |-> sl.nshard]
    [] c = "fold" -> [cols |-> <<sl.cols[1], g.outs[1]>>, prefix |-> IF sl.prefix = 1 THEN 1 ELSE -1, nshard |-> sl.nshard]
    [] c = "reshard" -> [cols |-> sl.cols, prefix |-> sl.prefix, nshard |-> r.n]
    [] c = "prefixed" -> [cols |-> sl.cols, prefix |-> r.n, nshard |-> sl.nshard]
    [] c = "cogroup" -> [cols |-> SubSeq(sl.cols, 1, sl.prefix)
                                  \o Concat([k \in DOMAIN r.slices |->
                                       [j \in 1..(Len(r.slices[k].cols) - sl.prefix) |-> Vec(r.slices[k].cols[sl.prefix + j])]]),
                         prefix |-> sl.prefix, nshard |-> MaxOf({r.slices[k].nshard : k \in DOMAIN r.slices})]
    [] c = "readerfunc" -> [cols |-> [k \in 1..(Len(Ins(g)) - 2) |-> Elem(Ins(g)[k + 2])], prefix |-> 1, nshard |-> r.n]
    [] OTHER -> [cols |-> sl.cols, prefix |-> sl.prefix, nshard |-> sl.nshard]   \* filter reduce repartition reshuffle head writerfunc

Fail(r, what) == [id |-> r.id, ctor |-> r.ctor, what |-> what]

Step ==
  /\ s <= Len(Recs)
  /\ LET r == Recs[s]
         acc == Accepts(r)
         f == IF r.outcome = "setup" THEN <<>>
              ELSE IF acc THEN
                   (IF r.outcome # "ok" THEN <<Fail(r, "AcceptsDocumentedSchema")>>
                    ELSE LET e == Result(r) IN
                         IF r.rcols = e.cols /\ (e.prefix = -1 \/ r.rprefix = e.prefix) /\ r.rnshard = e.nshard THEN <<>>
                         ELSE <<Fail(r, "ResultTypeAsDocumented")>>)
              ELSE IF r.outcome = "ok" THEN <<Fail(r, "RejectsWhatDoesNotFit")>>
              ELSE IF r.outcome = "panic" THEN <<Fail(r, "RejectionIsATypecheckError")>>
              ELSE IF ~r.locok THEN <<Fail(r, "ErrorAttributedToCaller")>>
              ELSE <<>>
     IN bad' = bad \o f
  /\ s' = s + 1

Init == s = 1 /\ bad = <<>>
Spec == Init /\ [][Step]_vars
Dump == s <= Len(Recs) \/ JsonSerialize("c18_verdict.json", [n |-> Len(Recs), bad |-> bad])
=============================================================================
