------------------------------ MODULE Dataflow ------------------------------
(***************************************************************************)
(* Denotational meaning of the bigslice operators, from their doc comments  *)
(* (slice.go, reduce.go, cogroup.go, reshuffle.go, reshard.go, scan.go).    *)
(* Rows are <<k, v>> integer pairs (the harness programs use that schema).  *)
(*                                                                          *)
(* The value of a slice is                                                  *)
(*   [n      number of shards                                               *)
(*    exact  the contents of every shard are fixed by the program           *)
(*    ordered (if exact) also the order of rows inside each shard           *)
(*    sh     (if exact) the shards, a sequence of n sequences of rows       *)
(*    all    all rows of the slice (order irrelevant)                       *)
(*    keyed  rows with equal key are in one shard (after a keyed shuffle)   *)
(*    weak   only "sub-multiset of all, at most cap rows per shard" is      *)
(*           fixed (Head of a slice whose shard contents are not fixed)     *)
(*    cap ]                                                                 *)
(* The partition function of keyed shuffles is deliberately NOT specified   *)
(* (C05 states only what follows from it).                                  *)
(***************************************************************************)
EXTENDS Integers, Sequences, FiniteSets, TLC

RangeSeq(q) == {q[j] : j \in DOMAIN q}
Min(a, b) == IF a < b THEN a ELSE b
Max(a, b) == IF a > b THEN a ELSE b

RECURSIVE ConcatAll(_)
ConcatAll(ss) == IF ss = <<>> THEN <<>> ELSE Head(ss) \o ConcatAll(Tail(ss))
RECURSIVE SumSeq(_)
SumSeq(q) == IF q = <<>> THEN 0 ELSE Head(q) + SumSeq(Tail(q))
RECURSIVE MaxSeq(_)
MaxSeq(q) == IF Len(q) = 1 THEN q[1] ELSE Max(Head(q), MaxSeq(Tail(q)))

Count(q, x) == Cardinality({j \in DOMAIN q : q[j] = x})
SameBag(a, b) == /\ Len(a) = Len(b)
                 /\ \A x \in RangeSeq(a) \cup RangeSeq(b) : Count(a, x) = Count(b, x)
SubBag(a, b) == \A x \in RangeSeq(a) : Count(a, x) <= Count(b, x)

Keys(q) == {q[j][1] : j \in DOMAIN q}
\* values of key k, in an arbitrary but fixed order
RECURSIVE PickSeq(_, _)
PickSeq(q, S) == IF S = {} THEN <<>>
                 ELSE LET m == CHOOSE x \in S : \A y \in S : x <= y IN <<q[m]>> \o PickSeq(q, S \ {m})
ValuesOf(q, k) == LET rows == PickSeq(q, {j \in DOMAIN q : q[j][1] = k})
                  IN [j \in DOMAIN rows |-> rows[j][2]]
RECURSIVE SeqOfSet(_)
SeqOfSet(S) == IF S = {} THEN <<>> ELSE LET m == CHOOSE x \in S : \A y \in S : x <= y IN <<m>> \o SeqOfSet(S \ {m})

-----------------------------------------------------------------------------
(* user functions of the harness programs (harness/prog), restated *)
MapF(f, r) == CASE f = "inc"  -> <<r[1], r[2] + 1>>
                [] f = "kmod" -> <<r[1] % 2, r[2]>>
                [] f = "swap" -> <<r[2] % 4, r[1]>>
KeyPreserving(f) == f = "inc"
FilterP(f, r) == CASE f = "even" -> r[2] % 2 = 0
                   [] f = "knz"  -> r[1] # 0
FlatF(r) == [j \in 1..(r[2] % 3) |-> <<r[1], r[2] + 100 * (j - 1)>>]
Agg(f, vs) == IF f = "max" THEN MaxSeq(vs) ELSE SumSeq(vs)
PartF(n, r) == (r[1] + r[2]) % n
\* the harness folds a cogroup row <<k, vs1, ..., vsm>> into <<k, t>> so that everything stays <<k, v>>
RECURSIVE CgFold(_, _)
CgFold(t, groups) == IF groups = <<>> THEN t
                     ELSE CgFold((t * 31 + 7 * Len(Head(groups)) + SumSeq(Head(groups))) % 10007, Tail(groups))

-----------------------------------------------------------------------------
MapSeq(F(_), q) == [j \in DOMAIN q |-> F(q[j])]
RECURSIVE FlatAll(_)
FlatAll(q) == IF q = <<>> THEN <<>> ELSE FlatF(Head(q)) \o FlatAll(Tail(q))

Mk(n, exact, ordered, sh, all, keyed) ==
  [n |-> n, exact |-> exact, ordered |-> ordered, sh |-> sh, all |-> all, keyed |-> keyed, weak |-> FALSE, cap |-> 0]

\* slice.go constShard
ConstOff(n, ns, s) == LET q == n \div ns  r == n % ns IN q * s + (IF s < r THEN s ELSE r)
ConstCnt(n, ns, s) == LET q == n \div ns  r == n % ns IN q + (IF s < r THEN 1 ELSE 0)
ConstV(ns, rows) ==
  Mk(ns, TRUE, TRUE,
     [s \in 1..ns |-> SubSeq(rows, ConstOff(Len(rows), ns, s - 1) + 1,
                             ConstOff(Len(rows), ns, s - 1) + ConstCnt(Len(rows), ns, s - 1))],
     rows, FALSE)
\* ScanReader "shards the file by lines": every line in exactly one shard; which one is not documented
ScanReaderV(ns, lines) == Mk(ns, FALSE, FALSE, <<>>, lines, FALSE)
ReaderV(shards) == Mk(Len(shards), TRUE, TRUE, shards, ConcatAll(shards), FALSE)

PerShard(v, G(_), keepKeyed) ==
  [v EXCEPT !.sh = IF v.exact THEN [s \in DOMAIN v.sh |-> G(v.sh[s])] ELSE v.sh,
            !.all = G(v.all), !.keyed = v.keyed /\ keepKeyed]

MapV(v, f)   == LET G(q) == [j \in DOMAIN q |-> MapF(f, q[j])] IN PerShard(v, G, KeyPreserving(f))
FilterV(v, f) == LET P(r) == FilterP(f, r)  G(q) == SelectSeq(q, P) IN PerShard(v, G, TRUE)
FlatmapV(v)  == PerShard(v, FlatAll, TRUE)

HeadV(v, n) ==
  IF v.exact /\ v.ordered /\ ~v.weak
  THEN LET G(q) == SubSeq(q, 1, Min(Max(n, 0), Len(q))) IN
       [v EXCEPT !.sh = [s \in DOMAIN v.sh |-> G(v.sh[s])],
                 !.all = ConcatAll([s \in DOMAIN v.sh |-> G(v.sh[s])])]
  ELSE [v EXCEPT !.weak = TRUE, !.cap = Max(n, 0), !.exact = FALSE]

\* keyed aggregation: one row per key over the whole slice, key -> shard by an unspecified function
AggV(v, f) ==
  LET ks == SeqOfSet(Keys(v.all)) IN
  Mk(v.n, FALSE, FALSE, <<>>, [j \in DOMAIN ks |-> <<ks[j], Agg(f, ValuesOf(v.all, ks[j]))>>], TRUE)
\* Fold starts from the zero accumulator and adds
FoldV(v) == AggV(v, "sum")

CogroupV(vs) ==
  LET all == ConcatAll([j \in DOMAIN vs |-> vs[j].all])
      ks == SeqOfSet(Keys(all))
      n == MaxSeq([j \in DOMAIN vs |-> vs[j].n])
  IN Mk(n, FALSE, FALSE, <<>>,
        [j \in DOMAIN ks |-> <<ks[j], CgFold(0, [d \in DOMAIN vs |-> ValuesOf(vs[d].all, ks[j])])>>], TRUE)

ReshuffleV(v) == Mk(v.n, FALSE, FALSE, <<>>, v.all, TRUE)
ReshardV(v, n) == IF n = v.n THEN v ELSE Mk(n, FALSE, FALSE, <<>>, v.all, TRUE)
RepartitionV(v) ==
  Mk(v.n, TRUE, FALSE, [s \in 1..v.n |-> SelectSeq(v.all, LAMBDA r : PartF(v.n, r) = s - 1)], v.all, FALSE)

-----------------------------------------------------------------------------
(* acceptance: observed per-shard rows (a sequence of n sequences) against a value *)
OneShardPerKey(obs) == \A a, b \in DOMAIN obs : a # b => Keys(obs[a]) \cap Keys(obs[b]) = {}

Allowed(v, obs) ==
  /\ Len(obs) = v.n
  /\ IF v.weak THEN /\ SubBag(ConcatAll(obs), v.all)
                    /\ \A s \in DOMAIN obs : Len(obs[s]) <= v.cap
     ELSE IF v.exact /\ v.ordered THEN obs = v.sh
     ELSE IF v.exact THEN \A s \in DOMAIN obs : SameBag(obs[s], v.sh[s])
     ELSE SameBag(ConcatAll(obs), v.all)
  /\ v.keyed => OneShardPerKey(obs)

\* rows scanned from a Result (shards are scanned sequentially)
AllowedScan(v, rows) ==
  IF v.weak THEN SubBag(rows, v.all) /\ Len(rows) <= v.cap * v.n
  ELSE IF v.exact /\ v.ordered THEN rows = ConcatAll(v.sh)
  ELSE SameBag(rows, v.all)
=============================================================================
