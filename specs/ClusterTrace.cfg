SPECIFICATION TraceSpec
CONSTANTS
 Reqs <- TReqs
 Procs <- TProcs
 Prio <- TPrio
 Configs <- NoConfigs
 MaxMach = 48
 MaxStops = 1000000
INVARIANTS Progress
POSTCONDITION DoneOut
CHECK_DEADLOCK FALSE
