------------------------------ MODULE Worker ------------------------------
(***************************************************************************)
(* One task on one worker machine: worker.Run, worker.Discard and     *)
(* the task's state (exec/bigmachine.go:728-1075, exec/task.go).            *)
(*                                                                          *)
(* Worker.Run may be called for the same task several times at once: the   *)
(* driver retries the RPC when a reply is lost, two evaluations may share a *)
(* task, and a lost task is run again.  The code lets the first caller     *)
(* execute the task and makes the others wait for it:                       *)
(*                                                                          *)
(*   Enter(r)    under the task lock: state INIT/ERR/LOST -> RUNNING and    *)
(*               this request executes; state RUNNING -> this request      *)
(*               waits; state OK -> return at once                          *)
(*   Finish(r)   the executing request stores the output and returns;      *)
(*               the deferred handler sets OK or ERR                        *)
(*   Wake(r)     a waiting request sees a state above RUNNING, returns      *)
(*               the task's error; the deferred handler of THIS request     *)
(*               also sets the task state (Set(OK) / Error(err))            *)
(*   Cancel(r)   a waiting request's context ends: it returns the context   *)
(*               error, and the deferred handler marks the task ERR         *)
(*               (CancelMarksErr = TRUE: as written at the pinned commit)   *)
(*   Discard     state OK -> RUNNING (busy), output removed, -> LOST        *)
(*                                                                          *)
(*   OneExecution   at most one request executes the task at any time       *)
(*   OkHasOutput    state OK implies the output is in the store             *)
(*   ReplyOk        a request that returned success returned after an       *)
(*                  execution finished successfully                          *)
(***************************************************************************)
EXTENDS Integers, FiniteSets, TLC

CONSTANTS Reqs,            \* request identities
          MaxFail,         \* executions that may fail
          MaxDiscards,
          CancelMarksErr   \* TRUE: the deferred handler of a waiter that gave up marks the task ERR

VARIABLES tstate,    \* "init" "running" "ok" "err" "lost"
          output,    \* TRUE iff the task's output is in the store
          pc,        \* request -> "idle" "exec" "wait" "done"
          res,       \* request -> "none" "ok" "err" "cancelled" "lost"
          busy,      \* a Discard is in progress (it borrows the RUNNING state)
          fails, discards, okruns
vars == <<tstate, output, pc, res, busy, fails, discards, okruns>>

Init == /\ tstate = "init" /\ output = FALSE
        /\ pc = [r \in Reqs |-> "idle"] /\ res = [r \in Reqs |-> "none"]
        /\ busy = FALSE /\ fails = 0 /\ discards = 0 /\ okruns = 0

Enter(r) ==
  /\ pc[r] = "idle"
  /\ CASE tstate \in {"init", "err", "lost"} ->
            /\ tstate' = "running" /\ pc' = [pc EXCEPT ![r] = "exec"] /\ UNCHANGED res
       [] tstate = "running" ->
            /\ pc' = [pc EXCEPT ![r] = "wait"] /\ UNCHANGED <<tstate, res>>
       [] tstate = "ok" ->
            \* the loop does not wait; the deferred handler sets OK again
            /\ pc' = [pc EXCEPT ![r] = "done"] /\ res' = [res EXCEPT ![r] = "ok"] /\ UNCHANGED tstate
  /\ UNCHANGED <<output, busy, fails, discards, okruns>>

Finish(r) ==
  /\ pc[r] = "exec"
  /\ \/ /\ output' = TRUE /\ tstate' = "ok" /\ res' = [res EXCEPT ![r] = "ok"]
        /\ okruns' = okruns + 1 /\ UNCHANGED fails
     \/ /\ fails < MaxFail /\ fails' = fails + 1
        /\ tstate' = "err" /\ res' = [res EXCEPT ![r] = "err"] /\ UNCHANGED <<output, okruns>>
  /\ pc' = [pc EXCEPT ![r] = "done"]
  /\ UNCHANGED <<busy, discards>>

Wake(r) ==
  /\ pc[r] = "wait" /\ tstate \notin {"init", "running"}
  /\ pc' = [pc EXCEPT ![r] = "done"]
  /\ CASE tstate = "ok"   -> res' = [res EXCEPT ![r] = "ok"]  /\ tstate' = "ok"
       [] tstate = "err"  -> res' = [res EXCEPT ![r] = "err"] /\ tstate' = "err"
       [] tstate = "lost" -> res' = [res EXCEPT ![r] = "lost"] /\ tstate' = "err"   \* Error(ErrTaskLost)
  /\ UNCHANGED <<output, busy, fails, discards, okruns>>

Cancel(r) ==
  /\ pc[r] = "wait"
  /\ pc' = [pc EXCEPT ![r] = "done"] /\ res' = [res EXCEPT ![r] = "cancelled"]
  /\ tstate' = IF CancelMarksErr THEN "err" ELSE tstate
  /\ UNCHANGED <<output, busy, fails, discards, okruns>>

DiscardBegin == /\ tstate = "ok" /\ ~busy /\ discards < MaxDiscards
                /\ tstate' = "running" /\ busy' = TRUE /\ discards' = discards + 1
                /\ UNCHANGED <<output, pc, res, fails, okruns>>
DiscardEnd == /\ busy /\ busy' = FALSE /\ output' = FALSE /\ tstate' = "lost"
              /\ UNCHANGED <<pc, res, fails, discards, okruns>>

Next == (\E r \in Reqs : Enter(r) \/ Finish(r) \/ Wake(r) \/ Cancel(r)) \/ DiscardBegin \/ DiscardEnd
Spec == Init /\ [][Next]_vars

Executing == {r \in Reqs : pc[r] = "exec"}
OneExecution == Cardinality(Executing) <= 1
NoRunDuringDiscard == ~(busy /\ Executing # {})
OkHasOutput == (tstate = "ok" /\ ~busy) => output
ReplyOk == \A r \in Reqs : res[r] = "ok" => okruns > 0
TypeOK == tstate \in {"init", "running", "ok", "err", "lost"}
=============================================================================
