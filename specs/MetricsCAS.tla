---------------------------- MODULE MetricsCAS ----------------------------
(***************************************************************************)
(* The lock-free installation of a scope's storage list and of a metric's   *)
(* instance (metrics/scope.go list() and instance(): load; if nil, allocate *)
(* and CompareAndSwap; on failure reload), with N threads each performing   *)
(* K increments through it.  Design-level check (exhaustive): every thread  *)
(* ends up using the same instance and no increment is lost.                *)
(***************************************************************************)
EXTENDS Integers, FiniteSets, TLC
CONSTANTS Threads, K
VARIABLES storage,   \* 0 = nil, else id of the installed list
          slot,      \* slot[l] = 0 (nil) or id of the installed instance, per list id
          count,     \* count[inst] = value of the counter instance
          pc, mylist, myinst, alloc, done
vars == <<storage, slot, count, pc, mylist, myinst, alloc, done>>
Ids == 1..(2 * Cardinality(Threads))
Init == /\ storage = 0 /\ slot = [l \in Ids |-> 0] /\ count = [x \in Ids |-> 0]
        /\ pc = [t \in Threads |-> "loadlist"] /\ mylist = [t \in Threads |-> 0] /\ myinst = [t \in Threads |-> 0]
        /\ alloc = 0 /\ done = [t \in Threads |-> 0]
LoadList(t) == /\ pc[t] = "loadlist"
               /\ IF storage # 0 THEN mylist' = [mylist EXCEPT ![t] = storage] /\ pc' = [pc EXCEPT ![t] = "loadinst"] /\ UNCHANGED alloc
                  ELSE alloc' = alloc + 1 /\ mylist' = [mylist EXCEPT ![t] = alloc + 1] /\ pc' = [pc EXCEPT ![t] = "caslist"]
               /\ UNCHANGED <<storage, slot, count, myinst, done>>
CasList(t) == /\ pc[t] = "caslist"
              /\ IF storage = 0 THEN storage' = mylist[t] /\ pc' = [pc EXCEPT ![t] = "loadinst"]
                 ELSE UNCHANGED storage /\ pc' = [pc EXCEPT ![t] = "loadlist"]
              /\ UNCHANGED <<slot, count, mylist, myinst, alloc, done>>
LoadInst(t) == /\ pc[t] = "loadinst"
               /\ IF slot[mylist[t]] # 0 THEN myinst' = [myinst EXCEPT ![t] = slot[mylist[t]]] /\ pc' = [pc EXCEPT ![t] = "incr"] /\ UNCHANGED alloc
                  ELSE alloc' = alloc + 1 /\ myinst' = [myinst EXCEPT ![t] = alloc + 1] /\ pc' = [pc EXCEPT ![t] = "casinst"]
               /\ UNCHANGED <<storage, slot, count, mylist, done>>
CasInst(t) == /\ pc[t] = "casinst"
              /\ IF slot[mylist[t]] = 0 THEN slot' = [slot EXCEPT ![mylist[t]] = myinst[t]] /\ pc' = [pc EXCEPT ![t] = "incr"]
                 ELSE UNCHANGED slot /\ pc' = [pc EXCEPT ![t] = "loadinst"]
              /\ UNCHANGED <<storage, count, mylist, myinst, alloc, done>>
Incr(t) == /\ pc[t] = "incr"
           /\ count' = [count EXCEPT ![myinst[t]] = @ + 1]   \* atomic.AddInt64
           /\ done' = [done EXCEPT ![t] = @ + 1]
           /\ pc' = [pc EXCEPT ![t] = IF done[t] + 1 = K THEN "end" ELSE "loadlist"]
           /\ UNCHANGED <<storage, slot, mylist, myinst, alloc>>
Next == \E t \in Threads : LoadList(t) \/ CasList(t) \/ LoadInst(t) \/ CasInst(t) \/ Incr(t)
Spec == Init /\ [][Next]_vars
OneInstance == \A a, b \in Threads : (pc[a] = "incr" /\ pc[b] = "incr") => myinst[a] = myinst[b]
NoLostIncrement == (\A t \in Threads : pc[t] = "end") =>
                      (storage # 0 /\ slot[storage] # 0 /\ count[slot[storage]] = K * Cardinality(Threads))
=============================================================================
