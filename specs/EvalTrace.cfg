SPECIFICATION TraceSpec
CONSTANTS
 Shapes <- NoShapes
 MaxLost = 5
 LossBudget = 1000000
 ErrBudget = 1000000
 InitStates = {"INIT"}
 AllowCancel = TRUE
 FixErr = TRUE
INVARIANTS Progress
POSTCONDITION Done
CHECK_DEADLOCK FALSE
