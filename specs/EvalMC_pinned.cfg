SPECIFICATION Spec
CONSTANTS
 Shapes <- ShapesDiamond1
 MaxLost = 2
 LossBudget = 3
 ErrBudget = 1
 InitStates = {"INIT"}
 AllowCancel = FALSE
 FixErr = FALSE
INVARIANTS TypeOK ErrorHasCause LostBudgetOK NotStuck AwaitedIsLive
PROPERTIES SubmitReady NoDoubleRun SuccessMeansDone NeededOnly
CHECK_DEADLOCK FALSE
