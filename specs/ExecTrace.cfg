SPECIFICATION TraceSpec
CONSTANTS
 Tasks <- TTasks
 Deps <- TDeps
 Roots <- TRoots
 Faulty <- TFaulty
 Mach <- TMach
 MaxKills = 1000000
 MaxDiscards = 1000000
 MaxLost = 5
 Variant = "atomic"
INVARIANTS Progress
POSTCONDITION DoneOut
CHECK_DEADLOCK FALSE
