------------------------------- MODULE Codec -------------------------------
(***************************************************************************)
(* The row-stream codec (sliceio/codec.go Encoder / decodingReader) at      *)
(* batch granularity (C07).  A stream is a sequence of batches (sizes may   *)
(* be 0); the reader delivers rows into destination frames of any size.     *)
(*   RoundTrip  reading an undamaged stream delivers exactly the rows       *)
(*              written, in order, every Read between 0 and the destination *)
(*              size, then EOF                                              *)
(*   Detects    if the bytes are damaged inside batch b (bit flip, burst,   *)
(*              truncation not at a batch boundary) the reader ends with an *)
(*              error -- never a clean EOF, never a panic -- and what it    *)
(*              delivered before is a correct prefix that stops before      *)
(*              batch b's rows; truncation exactly at a batch boundary is a *)
(*              clean end after the rows before it                          *)
(* Each recorded stream is one step of the walk; its damage experiments are *)
(* judged together.                                                         *)
(***************************************************************************)
EXTENDS Integers, Sequences, TLC, Json, IOUtils

Recs == ndJsonDeserialize("c07_records.ndjson")
VARIABLES s, bad
vars == <<s, bad>>

RECURSIVE SumTo(_, _)
SumTo(q, k) == IF k = 0 THEN 0 ELSE q[k] + SumTo(q, k - 1)
\* rows in batches before batch index b (0-based)
RowsBefore(r, b) == SumTo(r.batches, b)

Fail(r, what, d) == [id |-> r.id, types |-> r.types, what |-> what, d |-> d]

\* d = <<kind, offset, bit/len, batch, delivered, correct, end>>
DamageOK(r, d) ==
  LET kind == d[1]  off == d[2]  b == d[4]  n == d[5]  ok == d[6]  end == d[7]
      atBoundary == kind = "trunc" /\ (off = 0 \/ \E j \in DOMAIN r.bounds : r.bounds[j] = off)
  IN IF atBoundary
     THEN end = "EOF" /\ ok /\ n = (IF off = 0 THEN 0 ELSE RowsBefore(r, CHOOSE j \in DOMAIN r.bounds : r.bounds[j] = off))
     ELSE end = "err" /\ ok /\ n <= RowsBefore(r, b)

JudgeDamage(r) ==
  LET badOnes == SelectSeq(r.damage, LAMBDA d : ~DamageOK(r, d))
      what(d) == IF d[7] = "panic" THEN "DamagePanics"
                 ELSE IF d[7] = "EOF" THEN "DamageReadAsCleanEnd"
                 ELSE IF ~d[6] THEN "DamagedRowsDelivered"
                 ELSE IF d[7] = "endless" THEN "DamageNeverEnds"
                 ELSE "RowsOfDamagedBatchDelivered"
  IN [j \in DOMAIN badOnes |-> Fail(r, what(badOnes[j]), badOnes[j])]

Step ==
  /\ s <= Len(Recs)
  /\ LET r == Recs[s]
         rt == r.rt
         f == IF "panic" \in DOMAIN r THEN <<Fail(r, "Panic", <<>>)>>
              ELSE IF "encerr" \in DOMAIN r THEN <<Fail(r, "EncodeFails", <<>>)>>
              ELSE (IF rt.end = "EOF" /\ rt.correct /\ rt.n = r.total
                       /\ \A j \in DOMAIN rt.reads : rt.reads[j][2] >= 0 /\ rt.reads[j][2] <= rt.reads[j][1]
                    THEN <<>> ELSE <<Fail(r, "RoundTrip", <<>>)>>)
                   \o JudgeDamage(r)
     IN bad' = bad \o f
  /\ s' = s + 1

Init == s = 1 /\ bad = <<>>
Spec == Init /\ [][Step]_vars
Dump == s <= Len(Recs) \/ JsonSerialize("c07_verdict.json", [n |-> Len(Recs), bad |-> bad])
=============================================================================
