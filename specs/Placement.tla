----------------------------- MODULE Placement -----------------------------
(***************************************************************************)
(* Keyed placement (C05).                                                   *)
(*                                                                          *)
(* The abstract system: for every shard count n there is ONE function      *)
(* part[n] : Key -> 0..n-1, unknown to the specification.  Every row that  *)
(* passes a key-redistributing operator (Reduce, Fold, Cogroup, Reshuffle, *)
(* Reshard) with n output shards, or that the default partitioner places,  *)
(* lands in shard part[n][key] -- whatever task, machine or process        *)
(* produced it, wherever it sat in a vector or a batch.  Repartition(fn)   *)
(* lands it in fn(n, row).  Aggregations emit one row per key, the others  *)
(* every row.                                                               *)
(*                                                                          *)
(* A record is one key universe (a list of key identities; keys with equal *)
(* columns have one identity) and its "variants": observations of where    *)
(* each identity was seen (place[k]: the shard, -1 never, -2 more than one *)
(* shard; count[k]: rows seen; mult[k]: rows fed), made by the default     *)
(* partitioner on frame views (kind "hash") and by a WriterFunc behind the *)
(* operator in real sessions (kind "e2e"), in two OS processes.            *)
(* The monitor learns part[n] from the first keyed variant with n shards   *)
(* and requires every other one to agree (Learn/Agree below): a behaviour  *)
(* is accepted iff some function part explains all observations.           *)
(***************************************************************************)
EXTENDS Integers, Sequences, FiniteSets, TLC, Json, IOUtils

Recs == ndJsonDeserialize("c05_records.ndjson")
VARIABLES s, bad
vars == <<s, bad>>

Fail(r, j, what) == [id |-> r.id, variant |-> j, what |-> what]
Chk(ok, r, j, what) == IF ok THEN <<>> ELSE <<Fail(r, j, what)>>

Keys(r) == 1..r.nkeys

\* every fed key was seen, in exactly one shard, which is a shard
OneShardPerKey(r, v) == \A k \in Keys(r) : v.mult[k] > 0 => v.place[k] \in 0..(v.n - 1)
NothingInvented(r, v) == \A k \in Keys(r) : v.mult[k] = 0 => v.count[k] = 0
Counts(r, v) == \A k \in Keys(r) : v.count[k] = (IF v.agg THEN (IF v.mult[k] > 0 THEN 1 ELSE 0) ELSE v.mult[k])
AsFunctionSays(r, v) == \A k \in Keys(r) : v.mult[k] > 0 => v.place[k] = v.want[k]

\* part[n] as learned from the first keyed variant with n shards in which key k was fed
\* (v.pfx: the number of leading columns that are the key for that consumer; a key identity of the record then
\* stands for all identities sharing those columns, and part[n] is learned per key width)
KeyedWith(r, n, p) == {j \in DOMAIN r.variants : r.variants[j].keyed /\ r.variants[j].n = n /\ r.variants[j].pfx = p /\ r.variants[j].err = ""}
First(S) == CHOOSE j \in S : \A i \in S : j <= i
LearnedSlow(r, n, p, k) ==
  LET js == {j \in KeyedWith(r, n, p) : r.variants[j].mult[k] > 0}
  IN IF js = {} THEN -1 ELSE r.variants[First(js)].place[k]
Agree(r, v) ==
  LET ref == r.variants[First(KeyedWith(r, v.n, v.pfx))] IN   \* v itself is in the set
  \A k \in Keys(r) : v.mult[k] > 0 =>
     v.place[k] = (IF ref.mult[k] > 0 THEN ref.place[k] ELSE LearnedSlow(r, v.n, v.pfx, k))

JudgeVariant(r, j) ==
  LET v == r.variants[j] IN
  IF v.err # "" THEN <<Fail(r, j, "RunFails")>>
  ELSE Chk(Len(v.place) = r.nkeys /\ Len(v.count) = r.nkeys /\ Len(v.mult) = r.nkeys, r, j, "RecordShape")
       \o Chk(OneShardPerKey(r, v), r, j, "OneShardPerKey")
       \o Chk(NothingInvented(r, v) /\ Counts(r, v), r, j, IF v.agg THEN "EveryKeyExactlyOnce" ELSE "EveryRowExactlyOnce")
       \o (IF v.keyed THEN Chk(Agree(r, v), r, j, "ShardIsFunctionOfKeyAndCountAlone")
           ELSE Chk(AsFunctionSays(r, v), r, j, "RepartitionPlacesWhereFunctionSays"))

RECURSIVE JudgeFrom(_, _)
JudgeFrom(r, j) == IF j > Len(r.variants) THEN <<>> ELSE JudgeVariant(r, j) \o JudgeFrom(r, j + 1)
Judge(r) == IF "panic" \in DOMAIN r THEN <<Fail(r, 0, "Panic")>> ELSE JudgeFrom(r, 1)

Step == /\ s <= Len(Recs) /\ bad' = bad \o Judge(Recs[s]) /\ s' = s + 1
Init == s = 1 /\ bad = <<>>
Spec == Init /\ [][Step]_vars
Dump == s <= Len(Recs) \/ JsonSerialize("c05_verdict.json", [n |-> Len(Recs), bad |-> bad])
=============================================================================
