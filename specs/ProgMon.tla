------------------------------ MODULE ProgMon ------------------------------
(***************************************************************************)
(* Session-level monitor (C01 C04 C12 C19 C20, and the transparency part    *)
(* of C13): a state machine over the recorded events of a scenario executed *)
(* in a real bigslice session (run / scan / run-with-result / discard,      *)
(* sequential or concurrent).  State: env = for every named Result the      *)
(* value its program denotes (Dataflow.tla), pinned to the rows of its      *)
(* first evaluation once they have been observed; gone = results discarded. *)
(***************************************************************************)
EXTENDS Dataflow, Json, IOUtils

Recs == ndJsonDeserialize("prog_records.ndjson")

VARIABLES s, i, env, gone, bad,
          cview,   \* cache prefix -> shards (0-based) whose file was complete at the last listing
          cexp,    \* cache prefix -> expected rows of every shard (a sequence of shards)
          nj, nvals   \* a run event is evaluated node by node: nvals = values of nodes 1..nj of its program
vars == <<s, i, env, gone, bad, cview, cexp, nj, nvals>>

Has(r, f) == f \in DOMAIN r

\* values of all nodes of program p, given the values of its Result arguments
NodeV(nd, acc, args) ==
  LET in(k) == acc[nd.in[k] + 1] IN
  CASE nd.op = "const" -> ConstV(nd.nshard, nd.rows)
    [] nd.op = "readerfunc" -> ReaderV(nd.shards)
    [] nd.op = "scanreader" -> ScanReaderV(nd.nshard, nd.rows)
    [] nd.op = "arg" -> args[nd.arg + 1]
    [] nd.op = "map" -> MapV(in(1), nd.f)
    [] nd.op = "filter" -> FilterV(in(1), nd.f)
    [] nd.op = "flatmap" -> FlatmapV(in(1))
    [] nd.op = "fold" -> FoldV(in(1))
    [] nd.op = "head" -> HeadV(in(1), nd.n)
    [] nd.op = "reduce" -> AggV(in(1), nd.f)
    [] nd.op = "cogroup" -> CogroupV([k \in DOMAIN nd.in |-> acc[nd.in[k] + 1]])
    [] nd.op = "reshuffle" -> ReshuffleV(in(1))
    [] nd.op = "repartition" -> RepartitionV(in(1))
    [] nd.op = "reshard" -> ReshardV(in(1), nd.n)
    [] nd.op \in {"prefixed", "writerfunc", "cache", "cachepartial"} -> in(1)
    [] nd.op = "scan" -> [in(1) EXCEPT !.all = <<>>, !.sh = [x \in 1..in(1).n |-> <<>>], !.exact = TRUE,
                                       !.ordered = TRUE, !.weak = FALSE, !.keyed = FALSE]

\* observed shards of tap key (a string) as a sequence 1..n ; <<>> if a shard is missing
ObsShards(ev, key, n) ==
  IF ~Has(ev.taps, key) THEN <<>>
  ELSE IF \E x \in 1..n : ~Has(ev.taps[key], ToString(x - 1)) THEN <<>>
  ELSE [x \in 1..n |-> ev.taps[key][ToString(x - 1)]]
EofsOK(ev, key, n) == /\ Has(ev.eofs, key)
                      /\ \A x \in 1..n : Has(ev.eofs[key], ToString(x - 1)) /\ ev.eofs[key][ToString(x - 1)] = 1

TapKey(p, t) == IF p.nodes[t + 1].op \in {"scan", "writerfunc"} THEN ToString(t) ELSE ToString(1000 + t)
\* what a tap on node t must see: for a Scan node, the rows of its input
TapVal(p, vals, t) == IF p.nodes[t + 1].op = "scan" THEN vals[p.nodes[t + 1].in[1] + 1] ELSE vals[t + 1]

HasOp(p, ops) == \E j \in DOMAIN p.nodes : p.nodes[j].op \in ops
\* counters: one increment per row fed to a map node (2 per row fed to a filter node)
RowsInto(p, vals, op) ==
  LET idx == {j \in DOMAIN p.nodes : p.nodes[j].op = op}
      RECURSIVE Sum(_)
      Sum(S) == IF S = {} THEN 0 ELSE LET j == CHOOSE x \in S : TRUE IN Len(vals[p.nodes[j].in[1] + 1].all) + Sum(S \ {j})
  IN Sum(idx)

RECURSIVE SeqOfSet2(_)
SeqOfSet2(S) == IF S = {} THEN <<>> ELSE LET m == CHOOSE x \in S : TRUE IN <<m>> \o SeqOfSet2(S \ {m})

Fail(r, ev, what, detail) == [id |-> r.id, exec |-> r.exec, seq |-> ev.seq, do |-> ev.do, what |-> what, detail |-> detail]

Init == s = 1 /\ i = 0 /\ env = <<>> /\ gone = {} /\ bad = <<>> /\ cview = <<>> /\ cexp = <<>> /\ nj = 0 /\ nvals = <<>>

ArgVals(ev) == [k \in DOMAIN ev.args |-> env[ev.args[k]].v]
\* results the program actually uses (its arg nodes), with everything they were built from
UsedArgs(ev) == {ev.args[ev.prog.nodes[n].arg + 1] : n \in {m \in DOMAIN ev.prog.nodes : ev.prog.nodes[m].op = "arg"}}
ArgDeps(ev) == UNION {{a} \cup env[a].deps : a \in UsedArgs(ev)}

CacheNodes(p) == {n \in DOMAIN p.nodes : p.nodes[n].op \in {"cache", "cachepartial"}}
UpdF(f, k, v) == [x \in (DOMAIN f) \cup {k} |-> IF x = k THEN v ELSE f[x]]
ViewOf(prefix) == IF prefix \in DOMAIN cview THEN cview[prefix] ELSE {}
CallsOf(ev, key) == IF key \in DOMAIN ev.calls THEN ev.calls[key] ELSE 0

(* a cached shard's upstream user functions are not invoked in a later run: for a map node feeding a cache
   node directly, the number of calls must be the rows of the shards the driver did NOT find cached
   (Cache: all or nothing; CachePartial: per shard) *)
SkipFails(r, ev, p, vals) ==
  LET cs == {c \in CacheNodes(p) : p.nodes[p.nodes[c].in[1] + 1].op = "map"}
      one(c) ==
        LET m == p.nodes[c].in[1] + 1
            inv == vals[p.nodes[m].in[1] + 1]
            V == ViewOf(p.nodes[c].prefix)
            all == {x - 1 : x \in 1..inv.n}
            miss == IF p.nodes[c].op = "cache" THEN (IF all \subseteq V THEN {} ELSE all) ELSE all \ V
            want == SumSeq([x \in 1..inv.n |-> IF (x - 1) \in miss THEN Len(inv.sh[x]) ELSE 0])
            usesm == Cardinality({k \in DOMAIN p.nodes : \E q \in DOMAIN p.nodes[k].in : p.nodes[k].in[q] = m - 1})
        IN IF ~inv.exact \/ HasOp(p, {"head"}) \/ usesm > 1 THEN <<>>
           ELSE IF CallsOf(ev, ToString(m - 1) \o "/map") = want THEN <<>>
           ELSE <<Fail(r, ev, "CachedShardsSkipRecomputation", p.nodes[c].prefix)>>
      RECURSIVE All(_)
      All(S) == IF S = {} THEN <<>> ELSE LET c == CHOOSE x \in S : TRUE IN one(c) \o All(S \ {c})
  IN All(cs)

\* expected shard contents of the cache files written by this program (when the value fixes them)
CexpAfter(p, vals) ==
  LET RECURSIVE Upd(_, _)
      Upd(S, f) == IF S = {} THEN f
                   ELSE LET c == CHOOSE x \in S : TRUE IN
                        Upd(S \ {c}, IF vals[c].exact /\ vals[c].ordered /\ ~vals[c].weak THEN UpdF(f, p.nodes[c].prefix, vals[c].sh) ELSE f)
  IN Upd(CacheNodes(p), cexp)

Lossy(r) == Has(r, "loss") /\ r.loss
FaultNodes(p) == {n \in DOMAIN p.nodes : "fault" \in DOMAIN p.nodes[n]}
NoBind == [bind |-> FALSE, v |-> 0, cm |-> 0, cf |-> 0, cok |-> FALSE]

(* a run whose program contains an injected user-function fault that fired (C06) *)
JudgeFaulty(r, ev) ==
  LET p == ev.prog
      n == CHOOSE x \in FaultNodes(p) : TRUE
      f == p.nodes[n].fault
      op == p.nodes[n].op
      failed == ev.err # "" /\ ~ev.ctxerr
      needMsg == f.mode = "panic" \/ (f.mode \in {"error", "errrows"} /\ op \in {"readerfunc", "writerfunc"})
  IN IF Has(ev, "panic") THEN <<Fail(r, ev, "RunPanicked", ev.panic)>>
     ELSE IF f.persist THEN
          (IF failed THEN <<>>
           ELSE IF ev.err = "" THEN <<Fail(r, ev, "UserFaultSurfacesAsError", op \o "/" \o f.mode)>>
           ELSE <<Fail(r, ev, "FailsWithoutHangingOrUnboundedRetry", op \o "/" \o f.mode)>>)
          \o (IF failed /\ needMsg /\ ~ev.hasmsg THEN <<Fail(r, ev, "ErrorCarriesUserMessage", op \o "/" \o f.mode)>> ELSE <<>>)
     ELSE \* a one-shot temporary failure must not fail the run
          (IF ev.err = "" THEN <<>> ELSE <<Fail(r, ev, "TransientFailureIsRetried", op \o "/" \o f.mode)>>)

JudgeRun(r, ev) ==
  IF Has(ev, "skipped") THEN [fails |-> <<>>] @@ NoBind
  \* a run made under injected file-layer faults (C13) may fail or retry tasks; only the files it leaves are judged
  ELSE IF Has(ev, "lenient") THEN [fails |-> <<>>] @@ NoBind
  ELSE IF Has(ev, "fault_fired") /\ ev.fault_fired > 0 /\ FaultNodes(ev.prog) # {}
          /\ (ev.err # "" \/ Has(ev, "panic") \/ (ev.prog.nodes[CHOOSE x \in FaultNodes(ev.prog) : TRUE].fault.persist))
       THEN [fails |-> JudgeFaulty(r, ev)] @@ NoBind
  ELSE IF Has(ev, "panic") THEN [fails |-> <<Fail(r, ev, "RunPanicked", ev.panic)>>] @@ NoBind
  \* machines were killed (C02): finitely many losses, replacements can be started, so the run must complete
  ELSE IF ev.err # "" /\ Lossy(r) THEN
       [fails |-> <<Fail(r, ev, IF ev.ctxerr THEN "NeverBlocksUnderMachineLoss" ELSE "CompletesWhenLossesStop", ev.err)>>] @@ NoBind
  ELSE IF ev.err # "" THEN [fails |-> <<Fail(r, ev, "FailureFreeRunSucceeds", ev.err)>>] @@ NoBind
  ELSE
  LET p == ev.prog
      vals == nvals
      out == vals[p.out + 1]
      tapFails(t) ==
         LET key == TapKey(p, t)
             tv == TapVal(p, vals, t)
             obs == ObsShards(ev, key, tv.n)
         IN IF obs = <<>> /\ tv.n > 0 THEN <<Fail(r, ev, "EveryShardObserved", key)>>
            ELSE (IF Allowed(tv, obs) THEN <<>> ELSE <<Fail(r, ev, "RowsAsPrescribed", key)>>)
                 \o (IF EofsOK(ev, key, tv.n) THEN <<>> ELSE <<Fail(r, ev, "EndOfStreamOncePerShard", key)>>)
      RECURSIVE AllTaps(_)
      AllTaps(q) == IF q = <<>> THEN <<>> ELSE tapFails(Head(q)) \o AllTaps(Tail(q))
      \* a pipelined sub-slice consumed by several operators is recomputed for each of them, so the
      \* counters are compared only for programs in which every node has a single use
      uses(x) == SumSeq([c \in DOMAIN p.nodes |-> Cardinality({k \in DOMAIN p.nodes[c].in : p.nodes[c].in[k] = x - 1})])
      shared == \E x \in DOMAIN p.nodes : uses(x) > 1
      ownOK == ~(HasOp(p, {"head", "scan", "cache", "cachepartial", "readcache"}) \/ shared)
      depNames == ArgDeps(ev)
      depsOK == \A d \in depNames : env[d].cok
      ownMap == RowsInto(p, vals, "map")
      ownFil == 2 * RowsInto(p, vals, "filter")
      \* Result.Scope merges the scopes of every task in the result's graph, including the tasks of
      \* the results it was built from (each once)
      expMap == ownMap + SumSeq([k \in DOMAIN SeqOfSet2(depNames) |-> env[SeqOfSet2(depNames)[k]].cm])
      expFil == ownFil + SumSeq([k \in DOMAIN SeqOfSet2(depNames) |-> env[SeqOfSet2(depNames)[k]].cf])
      \* (recomputation after a machine loss runs user functions again)
      cntOK == Lossy(r) \/ ~(ownOK /\ depsOK) \/ (ev.cnt_map = expMap /\ ev.cnt_filter = expFil)
      outObs == ObsShards(ev, TapKey(p, p.out), out.n)
      \* pin the result to the rows of its first evaluation when they were observed
      \* (not under machine loss: a recomputed output need only have the rows of a failure-free run)
      pinned == IF ~Lossy(r) /\ outObs # <<>> /\ Allowed(out, outObs) /\ p.nodes[p.out + 1].op # "scan"
                THEN [out EXCEPT !.exact = TRUE, !.sh = outObs, !.weak = FALSE, !.all = ConcatAll(outObs)]
                ELSE out
  IN [fails |-> AllTaps(p.taps)
               \o (IF ev.nshard = out.n THEN <<>> ELSE <<Fail(r, ev, "ShardCount", "")>>)
               \o (IF cntOK THEN <<>> ELSE <<Fail(r, ev, "CountersAreSumOfIncrements", "")>>)
               \o SkipFails(r, ev, p, vals),
      bind |-> TRUE, v |-> pinned, cm |-> ownMap, cf |-> ownFil, cok |-> ownOK /\ depsOK]

JudgeScan(r, ev) ==
  IF Has(ev, "skipped") THEN <<>>
  ELSE IF Has(ev, "panic") THEN <<Fail(r, ev, "ScanPanicked", ev.panic)>>
  ELSE IF ev.err # "" THEN
       \* a direct scan of a result whose outputs are gone may report an error
       (IF ev.res \in gone THEN <<>>
        ELSE IF Lossy(r) THEN <<Fail(r, ev, IF ev.ctxerr THEN "NeverBlocksUnderMachineLoss" ELSE "ScanCompletesWhenLossesStop", ev.err)>>
        ELSE <<Fail(r, ev, "ScanSucceeds", ev.err)>>)
  ELSE IF AllowedScan(env[ev.res].v, ev.rows) THEN <<>>
  ELSE <<Fail(r, ev, IF Lossy(r) THEN "ScanRowsAsFailureFreeRun" ELSE "ScanRowsAsFirstEvaluation", ev.res)>>

Runnable(ev) == ev.do = "run" /\ ~Has(ev, "skipped") /\ ~Has(ev, "panic") /\ (ev.err = "" \/ Has(ev, "lenient"))
                /\ ~(Has(ev, "fault_fired") /\ ev.fault_fired > 0 /\ FaultNodes(ev.prog) # {} /\ ev.prog.nodes[CHOOSE x \in FaultNodes(ev.prog) : TRUE].fault.persist)

(* evaluate the next node of the program of the current run event *)
EvalNode ==
  /\ s <= Len(Recs) /\ i < Len(Recs[s].events)
  /\ LET ev == Recs[s].events[i + 1] IN
     /\ Runnable(ev) /\ nj < Len(ev.prog.nodes)
     /\ nvals' = Append(nvals, NodeV(ev.prog.nodes[nj + 1], nvals, ArgVals(ev)))
     /\ nj' = nj + 1
  /\ UNCHANGED <<s, i, env, gone, bad, cview, cexp>>

Step ==
  /\ s <= Len(Recs) /\ i < Len(Recs[s].events)
  /\ LET r == Recs[s]
         ev == r.events[i + 1]
     IN /\ (Runnable(ev) => nj = Len(ev.prog.nodes))
        /\ CASE ev.do = "run" ->
               LET jr == JudgeRun(r, ev) IN
               /\ bad' = bad \o jr.fails
               /\ env' = IF jr.bind THEN [x \in DOMAIN env \cup {ev.as} |-> IF x = ev.as THEN [v |-> jr.v, deps |-> ArgDeps(ev), cm |-> jr.cm, cf |-> jr.cf, cok |-> jr.cok] ELSE env[x]] ELSE env
               /\ gone' = gone
               /\ cexp' = IF Runnable(ev) /\ nj = Len(ev.prog.nodes) THEN CexpAfter(ev.prog, nvals) ELSE cexp
               /\ cview' = cview
          [] ev.do = "cachefiles" ->
               LET pre == ev.prefix
                   st(x) == ev.files[ToString(x)]
                   corrupt == {x \in 0..(ev.n - 1) : st(x).state = "corrupt"}
                   wrong == {x \in 0..(ev.n - 1) : st(x).state = "ok" /\ pre \in DOMAIN cexp /\ st(x).rows # cexp[pre][x + 1]}
                   \* listed right after a completed failure-free run that read every shard of the cached slice to
                   \* its end (the scenario says so: must): every shard now has its file, or a later run could not
                   \* read it from the cache
                   missing == {x \in 0..(ev.n - 1) : st(x).state = "absent"}
               IN /\ bad' = bad \o (IF corrupt = {} THEN <<>> ELSE <<Fail(r, ev, "ShardFileCompleteOrAbsent", "corrupt")>>)
                              \o (IF wrong = {} THEN <<>> ELSE <<Fail(r, ev, "ShardFileCompleteOrAbsent", "incomplete")>>)
                              \o (IF Has(ev, "must") /\ ev.must /\ missing # {} THEN <<Fail(r, ev, "CompletedRunLeavesShardFiles", "absent")>> ELSE <<>>)
                  /\ cview' = UpdF(cview, pre, {x \in 0..(ev.n - 1) : st(x).state = "ok"})
                  /\ UNCHANGED <<env, gone, cexp>>
          [] ev.do = "scan" -> bad' = bad \o JudgeScan(r, ev) /\ UNCHANGED <<env, gone, cview, cexp>>
          [] ev.do = "discard" -> gone' = (IF Has(ev, "skipped") THEN gone ELSE gone \cup {ev.res} \cup env[ev.res].deps) /\ UNCHANGED <<env, bad, cview, cexp>>
          [] ev.do = "harness-panic" -> bad' = Append(bad, Fail(r, ev, "HarnessPanic", ev.panic)) /\ UNCHANGED <<env, gone, cview, cexp>>
          [] OTHER -> UNCHANGED <<env, gone, bad, cview, cexp>>
  /\ i' = i + 1 /\ s' = s /\ nj' = 0 /\ nvals' = <<>>

End ==
  /\ s <= Len(Recs) /\ i = Len(Recs[s].events)
  /\ bad' = IF Has(Recs[s], "crashed") THEN Append(bad, [id |-> Recs[s].id, exec |-> Recs[s].exec, seq |-> 0, do |-> "scenario",
                                             what |-> "DriverProcessSurvives", detail |-> Recs[s].crash])
            ELSE IF Recs[s].hung THEN Append(bad, [id |-> Recs[s].id, exec |-> Recs[s].exec, seq |-> 0, do |-> "scenario",
                                             what |-> "NoRunBlocksForever", detail |-> ""]) ELSE bad
  /\ s' = s + 1 /\ i' = 0 /\ env' = <<>> /\ gone' = {} /\ cview' = <<>> /\ cexp' = <<>> /\ nj' = 0 /\ nvals' = <<>>

Next == EvalNode \/ Step \/ End
Spec == Init /\ [][Next]_vars
Dump == s <= Len(Recs) \/ JsonSerialize("prog_verdict.json", [n |-> Len(Recs), bad |-> bad])
=============================================================================
