------------------------------ MODULE EvalMon ------------------------------
(***************************************************************************)
(* Property monitor for C03/C19 over traces recorded from the real          *)
(* exec.Eval (hooks in exec/eval.go, exec/task.go).  Deliberately NOT the   *)
(* implementation-shaped model: the observer state is only what the logged  *)
(* events say, and the predicates are the property clauses.  A failure here *)
(* is a VIOLATION (EvalTrace failing is only conformance DRIFT).            *)
(*                                                                          *)
(* The trace file is a concatenation of traces; a "Begin" record carries    *)
(* the task graph and initial task states and resets the observer.          *)
(***************************************************************************)
EXTENDS Integers, FiniteSets, Sequences, TLC, Json, IOUtils

CONSTANT MaxLost

Trace == ndJsonDeserialize("c03_traces.ndjson")

VARIABLES l,        \* next record
          g,        \* graph of the current trace: [tasks, deps, phase, roots]
          ts,       \* last logged state of each task
          running,  \* a handed-out run of the task has not reached a terminal state
          okw,      \* okw[e]: tasks seen OK since e's current decision round began (EvalStart/EvalRecv)
          nokw,     \* nokw[e]: tasks seen not-OK in that window
          out,      \* out[e]: tasks submitted by e and not yet returned to it
          lret,     \* lret[e]: tasks e received back in state LOST
          retok,    \* retok[e]: tasks returned to e in state OK (their dependents' waitlists were served)
          mcl,      \* monitor's own count of consecutive losses per task (runner bookkeeping events)
          wakeSt,   \* state seen by the waiter goroutine at EvalWake, per <<e,t>>
          cancelled,
          early,    \* tasks whose ExecRun was logged before the EvalSubmit that handed them out (the hook
                    \* follows "go executor.Run", so the two may be logged in either order)
          bad       \* sequence of monitor failures

vars == <<l, g, ts, running, okw, nokw, out, lret, retok, mcl, wakeSt, cancelled, early, bad>>

Terminal == {"OK","ERROR","LOST"}
RangeSeq(s) == {s[i] : i \in DOMAIN s}
TasksOf(G) == RangeSeq(G.tasks)
EvalsOf(G) == DOMAIN G.roots
DepTasks(t) == UNION {RangeSeq(g.phase[h]) : h \in RangeSeq(g.deps[t])}
PhasesOf(S) == UNION {RangeSeq(g.phase[r]) : r \in S}

(* needed: the roots' phases (and tasks received back LOST, see Eval.tla NeededOnly) and, for
   every task in the set that was seen not-OK in the window, its dependency tasks *)
NeededW(e, S0) ==
  LET RECURSIVE N(_)
      N(S) == LET S2 == S \cup UNION {DepTasks(x) : x \in {y \in S : y \in nokw[e]}}
              IN IF S2 = S THEN S ELSE N(S2)
  IN N(S0)

Fail(r, mon, cause) == [tr |-> r.tr, seq |-> r.seq, mon |-> mon, cause |-> cause,
                        e |-> IF "e" \in DOMAIN r THEN r.e ELSE "", t |-> IF "t" \in DOMAIN r THEN r.t ELSE ""]

RECURSIVE AppendAll(_,_)
AppendAll(s, S) == IF S = {} THEN s ELSE LET x == CHOOSE y \in S : TRUE IN AppendAll(Append(s, x), S \ {x})

Init ==
  /\ l = 1
  /\ g = [tasks |-> <<>>, deps |-> <<>>, phase |-> <<>>, roots |-> <<>>]
  /\ ts = <<>> /\ running = <<>> /\ okw = <<>> /\ nokw = <<>> /\ out = <<>> /\ lret = <<>> /\ retok = <<>>
  /\ mcl = <<>> /\ wakeSt = <<>> /\ cancelled = {} /\ early = {} /\ bad = <<>>

Begin(r) ==
  LET G == [tasks |-> r.tasks, deps |-> r.deps, phase |-> r.phase, roots |-> r.roots] IN
  /\ g' = G
  /\ ts' = [t \in TasksOf(G) |-> r.init[t]]
  /\ running' = [t \in TasksOf(G) |-> FALSE]
  /\ okw'  = [e \in EvalsOf(G) |-> {}]
  /\ nokw' = [e \in EvalsOf(G) |-> {}]
  /\ out'  = [e \in EvalsOf(G) |-> {}]
  /\ lret' = [e \in EvalsOf(G) |-> {}]
  /\ retok' = [e \in EvalsOf(G) |-> {}]
  /\ mcl'  = [t \in TasksOf(G) |-> 0]
  /\ wakeSt' = <<>>
  /\ cancelled' = {}
  /\ early' = {}
  /\ UNCHANGED bad

(* a task changes state (as logged): update ts, running and every evaluation's windows *)
SetTs(t, st) ==
  /\ ts' = [ts EXCEPT ![t] = st]
  /\ okw'  = [e \in DOMAIN okw  |-> IF st = "OK" THEN okw[e] \cup {t} ELSE okw[e]]
  /\ nokw' = [e \in DOMAIN nokw |-> IF st # "OK" THEN nokw[e] \cup {t} ELSE nokw[e]]

OpenWindow(e) ==
  /\ okw'  = [okw  EXCEPT ![e] = {x \in DOMAIN ts : ts[x] = "OK"}]
  /\ nokw' = [nokw EXCEPT ![e] = {x \in DOMAIN ts : ts[x] # "OK"}]

Step(r) ==
  LET ev == r.ev IN
  CASE ev = "Begin" -> Begin(r)
    [] ev = "EvalStart" ->
         /\ OpenWindow(r.e)
         /\ UNCHANGED <<g, ts, running, out, lret, retok, mcl, wakeSt, cancelled, early, bad>>
    [] ev = "EvalRecv" ->
         /\ OpenWindow(r.e)
         /\ lret' = [lret EXCEPT ![r.e] = IF ts[r.t] = "LOST" THEN @ \cup {r.t} ELSE @]
         /\ retok' = [retok EXCEPT ![r.e] = IF ts[r.t] = "OK" THEN @ \cup {r.t} ELSE @]
         /\ UNCHANGED <<g, ts, running, out, mcl, wakeSt, cancelled, early, bad>>
    [] ev = "EvalReturn" ->
         /\ out' = [out EXCEPT ![r.e] = @ \ {r.t}]
         /\ lret' = [lret EXCEPT ![r.e] = IF ts[r.t] = "LOST" THEN @ \cup {r.t} ELSE @]
         /\ retok' = [retok EXCEPT ![r.e] = IF ts[r.t] = "OK" THEN @ \cup {r.t} ELSE @]
         /\ bad' = IF r.t \in out[r.e] THEN bad ELSE Append(bad, Fail(r, "ReturnWasPending", ""))
         /\ UNCHANGED <<g, ts, running, okw, nokw, mcl, wakeSt, cancelled, early>>
    [] ev = "EvalSubmit" ->
         LET e == r.e  t == r.t
             notReady == r.runner /\ \E d \in DepTasks(t) : d \notin okw[e]
             dbl == r.runner /\ running[t]
             needed == NeededW(e, PhasesOf(RangeSeq(g.roots[e])))
             neededKF == NeededW(e, PhasesOf(RangeSeq(g.roots[e]) \cup lret[e]))
             followers == {x \in DOMAIN ts : DepTasks(x) \cap retok[e] # {}}
             neededKF2 == NeededW(e, PhasesOf(RangeSeq(g.roots[e]) \cup lret[e] \cup followers))
             fails == (IF notReady THEN {Fail(r, "SubmitReady", "")} ELSE {})
                      \cup (IF dbl THEN {Fail(r, "NoDoubleRun", "")} ELSE {})
                      \cup (IF t \in needed THEN {}
                            ELSE IF t \in neededKF THEN {Fail(r, "NeededOnly", "lost-return-reenqueue")}
                            ELSE IF t \in neededKF2 THEN {Fail(r, "NeededOnly", "waitlist-followon")}
                            ELSE {Fail(r, "NeededOnly", "")})
         IN /\ SetTs(t, r.st)
            /\ running' = [running EXCEPT ![t] = @ \/ r.runner]
            /\ out' = [out EXCEPT ![e] = @ \cup {t}]
            /\ bad' = AppendAll(bad, fails)
            /\ early' = IF r.runner THEN early \ {t} ELSE early
            /\ UNCHANGED <<g, lret, retok, mcl, wakeSt, cancelled>>
    [] ev = "TaskState" ->
         /\ SetTs(r.t, r.st)
         /\ running' = [running EXCEPT ![r.t] = IF r.st \in Terminal THEN FALSE ELSE @]
         /\ UNCHANGED <<g, out, lret, retok, mcl, wakeSt, cancelled, early, bad>>
    [] ev = "ExecRun" ->
         /\ early' = IF running[r.t] THEN early ELSE early \cup {r.t}
         /\ UNCHANGED <<g, ts, running, okw, nokw, out, lret, retok, mcl, wakeSt, cancelled, bad>>
    [] ev = "End" ->
         /\ bad' = IF early = {} THEN bad ELSE Append(bad, Fail(r, "RunOnlyWhenHandedOut", ""))
         /\ UNCHANGED <<g, ts, running, okw, nokw, out, lret, retok, mcl, wakeSt, cancelled, early>>
    [] ev = "EvalIdle" ->
         LET e == r.e
             stuck == out[e] = {} \/ \E t \in out[e] : ~(running[t] \/ ts[t] \in Terminal)
         IN /\ bad' = IF stuck /\ e \notin cancelled THEN Append(bad, Fail(r, "NotStuck", "")) ELSE bad
            /\ UNCHANGED <<g, ts, running, okw, nokw, out, lret, retok, mcl, wakeSt, cancelled, early>>
    [] ev = "EvalWake" ->
         /\ wakeSt' = [x \in (DOMAIN wakeSt) \cup {<<r.e, r.t>>} |->
                          IF x = <<r.e, r.t>> THEN r.st ELSE wakeSt[x]]
         /\ UNCHANGED <<g, ts, running, okw, nokw, out, lret, retok, mcl, cancelled, early, bad>>
    [] ev = "EvalBook" ->
         LET t == r.t
             pre == IF <<r.e, t>> \in DOMAIN wakeSt THEN wakeSt[<<r.e, t>>] ELSE "?"
             m2 == IF pre = "OK" THEN 0 ELSE IF pre = "LOST" THEN mcl[t] + 1 ELSE mcl[t]
             expSt == IF pre = "LOST" /\ m2 >= MaxLost THEN "ERROR" ELSE pre
             ok == pre = "?" \/ (r.st = expSt /\ r.closs = m2)
         IN /\ mcl' = [mcl EXCEPT ![t] = IF pre = "?" THEN r.closs ELSE m2]
            /\ SetTs(t, r.st)
            /\ running' = running
            /\ bad' = IF ok THEN bad ELSE Append(bad, Fail(r, "LostBudget", ""))
            /\ UNCHANGED <<g, out, lret, retok, wakeSt, cancelled, early>>
    [] ev = "EvalExit" ->
         LET e == r.e
             okres == r.err = ""
             f1 == IF okres /\ \E rt \in RangeSeq(g.roots[e]) : rt \notin okw[e]
                   THEN {Fail(r, "SuccessMeansDone", "")} ELSE {}
             f2 == IF ~okres /\ e \notin cancelled /\ ~\E t \in DOMAIN ts : ts[t] = "ERROR"
                   THEN {Fail(r, "ErrorHasCause", "")} ELSE {}
         IN /\ bad' = AppendAll(bad, f1 \cup f2)
            /\ UNCHANGED <<g, ts, running, okw, nokw, out, lret, retok, mcl, wakeSt, cancelled, early>>
    [] ev = "Cancel" ->
         /\ cancelled' = cancelled \cup {r.e}
         /\ UNCHANGED <<g, ts, running, okw, nokw, out, lret, retok, mcl, wakeSt, early, bad>>
    [] ev = "Stall" ->
         /\ bad' = Append(bad, Fail(r, "NoStall", r.after))
         /\ UNCHANGED <<g, ts, running, okw, nokw, out, lret, retok, mcl, wakeSt, cancelled, early>>
    [] OTHER -> UNCHANGED <<g, ts, running, okw, nokw, out, lret, retok, mcl, wakeSt, cancelled, early, bad>>

Next == /\ l <= Len(Trace)
        /\ l' = l + 1
        /\ Step(Trace[l])

Spec == Init /\ [][Next]_vars

(* When the whole file has been consumed, write the verdict. *)
Dump == l <= Len(Trace) \/ JsonSerialize("c03_verdict.json", [n |-> Len(Trace), bad |-> bad])
=============================================================================
