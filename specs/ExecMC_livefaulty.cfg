SPECIFICATION FairSpec
CONSTANTS
 Tasks <- T2
 Deps <- D2
 Faulty <- Fa
 Roots <- R2
 Mach <- M3
 MaxKills = 1
 MaxDiscards = 1
 MaxLost = 2
 Variant = "atomic"
PROPERTIES Terminates
CHECK_DEADLOCK FALSE
