----------------------------- MODULE CacheFile -----------------------------
(***************************************************************************)
(* The cache shard writer (internal/slicecache writethroughReader) (C13):   *)
(* rows flow from the upstream computation to the consumer and are written  *)
(* through to a temporary file that is published (renamed) only when the    *)
(* stream ended cleanly.  State per session: delivered rows, how the        *)
(* stream ended.  Each recorded Read is one step; at the end the shard file *)
(* as a later run would decode it is judged:                                *)
(*   Transparent       rows delivered = rows of the shard, in order         *)
(*   CompleteOrAbsent  a shard file is either absent or decodes to exactly  *)
(*                     the complete shard                                   *)
(*   OnlyAfterCleanEnd a file newly appears only if every Read succeeded    *)
(*                     and the stream ended with EOF (not after an upstream *)
(*                     error, an injected file failure or an abandoned      *)
(*                     stream); a file that existed before stays complete   *)
(*   WrittenWhenClean  a clean, fault-free, fully read stream leaves the    *)
(*                     file                                                 *)
(***************************************************************************)
EXTENDS Integers, Sequences, TLC, Json, IOUtils

Recs == ndJsonDeserialize("c13_records.ndjson")

VARIABLES s, i, delivered, ended, rowsok, bad
vars == <<s, i, delivered, ended, rowsok, bad>>

Init == s = 1 /\ i = 0 /\ delivered = 0 /\ ended = "" /\ rowsok = TRUE /\ bad = <<>>

Fail(r, what) == [id |-> r.id, what |-> what, nfaults |-> r.nfaults, errat |-> r.errat, abandon |-> r.abandon, pre |-> r.pre]

Step ==
  /\ s <= Len(Recs) /\ i < Len(Recs[s].reads)
  /\ LET rd == Recs[s].reads[i + 1] IN
     /\ delivered' = IF rd.n >= 0 /\ rd.n <= rd.k /\ rd.err \in {"", "EOF"} THEN delivered + rd.n ELSE delivered
     /\ rowsok' = (rowsok /\ rd.rowsok /\ rd.n >= 0 /\ rd.n <= rd.k)
     /\ ended' = rd.err
  /\ i' = i + 1 /\ UNCHANGED <<s, bad>>

End ==
  /\ s <= Len(Recs) /\ i = Len(Recs[s].reads)
  /\ LET r == Recs[s]
         f == r.file
         clean == ended = "EOF" /\ rowsok
         complete == f.state = "ok" /\ f.nrows = r.n /\ f.good
         fs == (IF "panic" \in DOMAIN r THEN <<Fail(r, "Panic")>> ELSE <<>>)
               \o (IF rowsok /\ (ended # "EOF" \/ delivered = r.n) THEN <<>> ELSE <<Fail(r, "Transparent")>>)
               \o (IF f.state = "absent" \/ complete THEN <<>> ELSE <<Fail(r, "ShardFileCompleteOrAbsent")>>)
               \o (IF f.state # "absent" /\ ~clean /\ ~r.pre THEN <<Fail(r, "FileOnlyAfterCleanEnd")>> ELSE <<>>)
               \o (IF clean /\ r.nfaults = 0 /\ f.state = "absent" THEN <<Fail(r, "FileWrittenAfterCleanRun")>> ELSE <<>>)
               \o (IF ended \in {"", "EOF", "upstream", "fault"} THEN <<>> ELSE <<Fail(r, "UnexpectedError")>>)
     IN bad' = bad \o fs
  /\ s' = s + 1 /\ i' = 0 /\ delivered' = 0 /\ ended' = "" /\ rowsok' = TRUE

Next == Step \/ End
Spec == Init /\ [][Next]_vars
Dump == s <= Len(Recs) \/ JsonSerialize("c13_verdict.json", [n |-> Len(Recs), bad |-> bad])
=============================================================================
