SPECIFICATION Spec
CONSTANTS
 Reqs = {"r1","r2","r3","r4"}
 Procs <- P4
 Prio <- Pr4
 Configs <- C24
 MaxMach = 3
 MaxStops = 1
INVARIANTS Capacity Conservation NeedAccounting ExclusiveAlone PendingOK PendingIsOutstanding NoOverstart
PROPERTIES HealthyOnly
CHECK_DEADLOCK FALSE
