----------------------------- MODULE Invocation -----------------------------
(***************************************************************************)
(* Invocation transport and registry comparison (C16):                      *)
(*   DiffCorrect   FuncLocationsDiff(lhs, rhs) is empty iff lhs = rhs, and  *)
(*                 otherwise is an edit script: its "=" and "-" lines are    *)
(*                 lhs, its "=" and "+" lines are rhs                        *)
(*   LocsDistinct  Funcs defined on different lines have different          *)
(*                 locations, which point at their definition               *)
(*   ArgsIntact    Decode(Encode(invocation)) carries the same index, func, *)
(*                 location, exclusivity and argument values (typed nil and  *)
(*                 interface-typed arguments included)                       *)
(*   SameSlice     a Func run on workers builds the same slice as in        *)
(*                 process: same rows as the local executor; unencodable    *)
(*                 arguments fail promptly with an error, never a hang      *)
(***************************************************************************)
EXTENDS Integers, Sequences, TLC, Json, IOUtils

Recs == ndJsonDeserialize("c16_records.ndjson")
VARIABLES s, bad
vars == <<s, bad>>

Proj(d, marks) == LET sel == SelectSeq(d, LAMBDA x : x[1] \in marks) IN [j \in DOMAIN sel |-> sel[j][2]]

Fail(r, what) == [id |-> r.id, mode |-> r.mode, pick |-> r.pick, what |-> what]

Judge(r) ==
  IF "panic" \in DOMAIN r THEN <<Fail(r, "Panic")>>
  ELSE CASE r.mode = "diff" ->
              (IF (r.diff = <<>>) = (r.lhs = r.rhs) THEN <<>> ELSE <<Fail(r, "DiffEmptyIffEqual")>>)
              \o (IF r.diff = <<>> \/ (Proj(r.diff, {"=", "-"}) = r.lhs /\ Proj(r.diff, {"=", "+"}) = r.rhs)
                  THEN <<>> ELSE <<Fail(r, "DiffTransformsOneIntoTheOther")>>)
         [] r.mode = "locs" ->
              IF r.found = <<TRUE, TRUE>> /\ r.dups = 0 THEN <<>> ELSE <<Fail(r, "LocationsDistinctAndAtDefinition")>>
         [] r.mode = "args" ->
              IF "encerr" \in DOMAIN r \/ "decerr" \in DOMAIN r THEN <<Fail(r, "ArgumentsEncodable")>>
              ELSE IF r.orig = r.dec /\ r.meta_same THEN <<>> ELSE <<Fail(r, "ArgumentsArriveIntact")>>
         [] r.mode = "e2e" ->
              IF r.pick = 102
              THEN \* unencodable argument: prompt error on the distributed executor (the local executor does not encode)
                   (IF r.err # "" /\ ~r.ctxexpired /\ r.ms < 30000 THEN <<>> ELSE <<Fail(r, "UnencodableArgumentFailsFast")>>)
              ELSE IF r.local_err # "" THEN <<Fail(r, "LocalReferenceRunFailed")>>
              ELSE IF r.err # "" THEN <<Fail(r, "RunWithArgumentsSucceeds")>>
              ELSE IF r.rows = r.local_rows THEN <<>> ELSE <<Fail(r, "SameSliceOnWorkers")>>
         [] OTHER -> <<>>

Step == /\ s <= Len(Recs) /\ bad' = bad \o Judge(Recs[s]) /\ s' = s + 1
Init == s = 1 /\ bad = <<>>
Spec == Init /\ [][Step]_vars
Dump == s <= Len(Recs) \/ JsonSerialize("c16_verdict.json", [n |-> Len(Recs), bad |-> bad])
=============================================================================
