SPECIFICATION Spec
CONSTANTS
 Input = {1, 2, 3, 4}
 LocalCap = 2
 MaxFails = 2
 RollbackOnFail = TRUE
INVARIANTS ExactlyOnce
CHECK_DEADLOCK FALSE
