SPECIFICATION GenSpec
CONSTANTS
 Shapes <- ShapesAll
 MaxLost = 5
 LossBudget = 2
 ErrBudget = 1
 InitStates = {"INIT", "INIT", "OK", "LOST"}
 AllowCancel = TRUE
 FixErr = TRUE
 Depth = 60
 OutPrefix = "gen/b"
INVARIANTS DumpGen
CHECK_DEADLOCK FALSE
