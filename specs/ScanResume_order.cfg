SPECIFICATION Spec
CONSTANTS
 Rows = {1, 2, 3, 4}
 BatchSize = 2
 MaxLosses = 1
 Reproducible = FALSE
INVARIANTS TypeOK RowsExact
CHECK_DEADLOCK FALSE
