----------------------------- MODULE FrameView -----------------------------
(***************************************************************************)
(* frame.Frame views (frame/frame.go) against a plain slice-of-rows model   *)
(* (C11).  Storage = a sequence of rows; a view = [off, len, cap] into a    *)
(* storage (Go slice semantics: Slice shares storage, AppendFrame/Grow      *)
(* write in place while capacity allows and otherwise move to a fresh       *)
(* storage).  Every operation is one action of the model; the recorded      *)
(* execution of the real frame package is validated step by step: after     *)
(* each step the real view's rows, its capacity and the WHOLE parent        *)
(* storage must equal the model's.                                          *)
(***************************************************************************)
EXTENDS Integers, Sequences, FiniteSets, TLC, Json, IOUtils

Recs == ndJsonDeserialize("c11_records.ndjson")

VARIABLES s, i,       \* session, step
          P,          \* parent storage (rows), never reallocated
          shared,     \* the current view still lives in P
          Q,          \* the view's own storage once it has moved (shared = FALSE)
          off, len, cap, prefix,
          dead,       \* a step of this session already failed: skip the rest
          bad
vars == <<s, i, P, shared, Q, off, len, cap, prefix, dead, bad>>

Min(a, b) == IF a < b THEN a ELSE b
RangeSeq(q) == {q[j] : j \in DOMAIN q}
Store == IF shared THEN P ELSE Q
ViewRows(S, o, l) == SubSeq(S, o + 1, o + l)

ZeroVal(ch) == CASE ch = "i" -> 0 [] ch = "u" -> 0 [] ch = "f" -> 0 [] ch = "s" -> "" [] ch = "b" -> ""
                 [] ch = "p" -> [A |-> 0, B |-> ""] [] OTHER -> 0
ZeroRow(r) == [c \in 1..Len(r.tl) |-> ZeroVal(r.tl[c])]

\* lexicographic comparison on the first p (integer-typed) columns
RECURSIVE LessRow(_, _, _, _)
LessRow(a, b, c, p) == IF c > p THEN FALSE
                       ELSE IF a[c] < b[c] THEN TRUE
                       ELSE IF b[c] < a[c] THEN FALSE
                       ELSE LessRow(a, b, c + 1, p)
Count(q, x) == Cardinality({j \in DOMAIN q : q[j] = x})
SameBag(a, b) == Len(a) = Len(b) /\ \A x \in RangeSeq(a) \cup RangeSeq(b) : Count(a, x) = Count(b, x)
SortedRows(q, p) == \A j \in 1..(Len(q) - 1) : ~LessRow(q[j + 1], q[j], 1, p)

\* replace rows o+1..o+Len(R) of S by R
Splice(S, o, R) == [j \in 1..Len(S) |-> IF j > o /\ j <= o + Len(R) THEN R[j - o] ELSE S[j]]
SwapRows(S, a, b) == [j \in 1..Len(S) |-> IF j = a THEN S[b] ELSE IF j = b THEN S[a] ELSE S[j]]

\* Go runtime growth rule used by frame.grow
RECURSIVE GrowCap(_, _, _)
GrowCap(m, i0, i1) == IF m >= i1 THEN m ELSE GrowCap(IF i0 < 1024 THEN m + m ELSE m + (m \div 4), i0, i1)
NewCap(c, i0, need) == IF c = 0 THEN need ELSE GrowCap(c, i0, i0 + need)

Fail(r, st, what) == [id |-> r.id, types |-> r.types, step |-> st.i, op |-> st.op[1], what |-> what, viewoff |-> off]

Init == /\ s = 1 /\ i = 0 /\ P = <<>> /\ shared = TRUE /\ Q = <<>> /\ off = 0 /\ len = 0 /\ cap = 0
        /\ prefix = 1 /\ dead = FALSE /\ bad = <<>>

Begin ==
  /\ s <= Len(Recs) /\ i = 0
  /\ P' = Recs[s].rows /\ shared' = TRUE /\ Q' = <<>>
  /\ off' = 0 /\ len' = Len(Recs[s].rows) /\ cap' = Len(Recs[s].rows)
  /\ prefix' = Recs[s].prefix
  /\ dead' = FALSE /\ i' = 1 /\ UNCHANGED <<s, bad>>

(* The model's next state for one operation, as a record
   [P, shared, Q, off, len, cap, prefix, res, ok] ; ok = FALSE if the op's own result is wrong *)
Same == [P |-> P, shared |-> shared, Q |-> Q, off |-> off, len |-> len, cap |-> cap, prefix |-> prefix]
WithStore(m, S) == IF m.shared THEN [m EXCEPT !.P = S] ELSE [m EXCEPT !.Q = S]

\* move to a fresh storage holding the view's rows followed by `extra` rows, total capacity m
Realloc(r, rowsNow, extra, m) ==
  LET body == rowsNow \o extra
      pad == [j \in 1..(m - Len(body)) |-> ZeroRow(r)]
  IN [Same EXCEPT !.shared = FALSE, !.Q = body \o pad, !.off = 0, !.len = Len(body), !.cap = m]

Apply(r, st) ==
  LET op == st.op
      name == op[1]
      S == Store
      view == ViewRows(S, off, len)
  IN
  CASE name = "slice" -> [m |-> [Same EXCEPT !.off = off + op[2], !.len = op[3] - op[2], !.cap = cap - op[2]], ok |-> TRUE]
    [] name = "copyin" ->
         LET n == Min(len, Len(op[2])) IN
         [m |-> WithStore(Same, Splice(S, off, SubSeq(op[2], 1, n))), ok |-> st.res = n]
    [] name = "copyself" ->
         \* Copy between two (possibly overlapping) sub-views of the view itself: as on independent copies of the
         \* rows, i.e. the destination receives the rows the source held BEFORE the copy
         LET n == Min(op[3], op[5]) IN
         [m |-> WithStore(Same, Splice(S, off + op[2], SubSeq(view, op[4] + 1, op[4] + n))), ok |-> st.res = n]
    [] name = "copyout" ->
         LET k == op[2]  n == Min(k, len)
             want == SubSeq(view, 1, n) \o [j \in 1..(k - n) |-> ZeroRow(r)]
         IN [m |-> Same, ok |-> st.res = n /\ st.rows = want]
    [] name = "swap" -> [m |-> WithStore(Same, SwapRows(S, off + op[2] + 1, off + op[3] + 1)), ok |-> TRUE]
    [] name = "zero" -> [m |-> WithStore(Same, Splice(S, off, [j \in 1..len |-> ZeroRow(r)])), ok |-> TRUE]
    [] name = "less" ->
         LET want == LessRow(view[op[2] + 1], view[op[3] + 1], 1, prefix)
         IN [m |-> Same, ok |-> st.res = want /\ st.res_copy = want]
    [] name = "hash" -> [m |-> Same, ok |-> st.res = st.res_copy]
    [] name = "prefixed" -> [m |-> [Same EXCEPT !.prefix = op[2]], ok |-> TRUE]
    [] name = "append" ->
         LET R == op[2] IN
         IF len + Len(R) <= cap
         THEN [m |-> [WithStore(Same, Splice(S, off + len, R)) EXCEPT !.len = len + Len(R)], ok |-> TRUE]
         ELSE [m |-> Realloc(r, view, R, NewCap(cap, len, Len(R))), ok |-> TRUE]
    [] name = "grow" ->
         LET n == op[2] IN
         IF len + n <= cap THEN [m |-> [Same EXCEPT !.len = len + n], ok |-> TRUE]
         ELSE [m |-> Realloc(r, view, [j \in 1..n |-> ZeroRow(r)], NewCap(cap, len, n)), ok |-> TRUE]
    [] name = "ensure" ->
         LET n == op[2] IN
         IF n = len THEN [m |-> Same, ok |-> TRUE]
         ELSE IF n <= cap THEN [m |-> [Same EXCEPT !.len = n], ok |-> TRUE]
         ELSE [m |-> Realloc(r, view, [j \in 1..(n - len) |-> ZeroRow(r)], NewCap(cap, len, n - len)), ok |-> TRUE]
    [] name = "sort" ->
         \* nondeterministic in the model (any sorted permutation of the view's rows): the logged
         \* view is taken as the choice if it is one.
         LET got == st.view
             good == Len(got) = len /\ SameBag(got, view) /\ SortedRows(got, prefix)
         IN [m |-> IF good THEN WithStore(Same, Splice(S, off, got)) ELSE Same, ok |-> good]
    [] OTHER -> [m |-> Same, ok |-> FALSE]

Step ==
  /\ s <= Len(Recs) /\ i >= 1 /\ i <= Len(Recs[s].steps)
  /\ LET r == Recs[s]
         st == r.steps[i]
     IN IF dead THEN UNCHANGED <<P, shared, Q, off, len, cap, prefix, dead, bad>>
        ELSE IF "panic" \in DOMAIN st \/ "obs_panic" \in DOMAIN st
        THEN /\ bad' = Append(bad, Fail(r, st, "Panic"))
             /\ dead' = TRUE /\ UNCHANGED <<P, shared, Q, off, len, cap, prefix>>
        ELSE LET a == Apply(r, st)
                 m == a.m
                 S2 == IF m.shared THEN m.P ELSE m.Q
                 viewOK == st.view = ViewRows(S2, m.off, m.len) /\ st.len = m.len
                 capOK == st.cap = m.cap /\ st.prefix = m.prefix
                 parentOK == st.parent = m.P
                 what == IF ~a.ok THEN "ResultAsOnCopy"
                         ELSE IF ~parentOK THEN "RowsOutsideViewUntouched"
                         ELSE IF ~viewOK THEN "ViewRowsAsModel"
                         ELSE IF ~capOK THEN "LenCapAsModel" ELSE ""
             IN /\ P' = m.P /\ shared' = m.shared /\ Q' = m.Q /\ off' = m.off /\ len' = m.len
                /\ cap' = m.cap /\ prefix' = m.prefix
                /\ dead' = (what # "")
                /\ bad' = IF what = "" THEN bad ELSE Append(bad, Fail(r, st, what))
  /\ i' = i + 1 /\ s' = s

End == /\ s <= Len(Recs) /\ i = Len(Recs[s].steps) + 1
       /\ s' = s + 1 /\ i' = 0 /\ UNCHANGED <<P, shared, Q, off, len, cap, prefix, dead, bad>>

Next == Begin \/ Step \/ End
Spec == Init /\ [][Next]_vars
Dump == s <= Len(Recs) \/ JsonSerialize("c11_verdict.json", [n |-> Len(Recs), bad |-> bad])
=============================================================================
