------------------------------ MODULE Combine ------------------------------
(***************************************************************************)
(* A combining task on a worker: worker.runCombine / CommitCombiner         *)
(* (exec/bigmachine.go) for a per-task combiner (no machine combiners).     *)
(*                                                                          *)
(* An attempt reads the task's input row by row into a small local table    *)
(* and, whenever that table is more than half full, flushes part of it into *)
(* the task's combiner buffer, which lives in the worker and survives the   *)
(* attempt.  At the end the remainder is flushed and the buffer is          *)
(* committed as the task's output.  An attempt may fail anywhere (a         *)
(* dependency's machine is lost in the middle of a read); the task is then  *)
(* run again, possibly on the same worker.                                  *)
(*                                                                          *)
(*   ExactlyOnce  the committed output holds every input row exactly once   *)
(*                                                                          *)
(* TLC: holds with RollbackOnFail = TRUE (the code after 2137240: a failed  *)
(* attempt discards the buffer); with FALSE (the pinned code) TLC finds     *)
(* read, flush, fail, retry, commit: the flushed rows are counted twice --  *)
(* the history recorded by the C02 torn-shuffle-read family.                *)
(***************************************************************************)
EXTENDS Integers, Sequences, FiniteSets, TLC

CONSTANTS Input,          \* the task's input rows (a set: all distinct)
          LocalCap,       \* capacity of the attempt's local table
          MaxFails,
          RollbackOnFail

VARIABLES buf,        \* worker's combiner buffer for the task: row -> count
          local,      \* the attempt's local table: set of rows read, not yet flushed
          toread,     \* rows the current attempt has yet to read
          phase,      \* "idle" "running" "committed"
          fails, out
vars == <<buf, local, toread, phase, fails, out>>

Zero == [r \in Input |-> 0]
Init == buf = Zero /\ local = {} /\ toread = {} /\ phase = "idle" /\ fails = 0 /\ out = Zero

Begin == /\ phase = "idle" /\ phase' = "running" /\ toread' = Input /\ local' = {}
         /\ UNCHANGED <<buf, fails, out>>
Read(r) == /\ phase = "running" /\ r \in toread /\ 2 * Cardinality(local) <= LocalCap
           /\ toread' = toread \ {r} /\ local' = local \cup {r}
           /\ UNCHANGED <<buf, phase, fails, out>>
\* more than half full: flush some of the local table into the worker's buffer
Flush(S) == /\ phase = "running" /\ 2 * Cardinality(local) > LocalCap /\ S # {} /\ S \subseteq local
            /\ buf' = [r \in Input |-> IF r \in S THEN buf[r] + 1 ELSE buf[r]]
            /\ local' = local \ S
            /\ UNCHANGED <<toread, phase, fails, out>>
Finish == /\ phase = "running" /\ toread = {}
          /\ out' = [r \in Input |-> buf[r] + (IF r \in local THEN 1 ELSE 0)]
          /\ phase' = "committed" /\ local' = {} /\ UNCHANGED <<buf, toread, fails>>
Fail == /\ phase = "running" /\ fails < MaxFails
        /\ fails' = fails + 1 /\ phase' = "idle" /\ local' = {} /\ toread' = {}
        /\ buf' = IF RollbackOnFail THEN Zero ELSE buf
        /\ UNCHANGED out

Next == Begin \/ Finish \/ Fail \/ (\E r \in Input : Read(r)) \/ (\E S \in SUBSET Input : Flush(S))
Spec == Init /\ [][Next]_vars

ExactlyOnce == phase = "committed" => \A r \in Input : out[r] = 1
=============================================================================
