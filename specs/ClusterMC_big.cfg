SPECIFICATION Spec
CONSTANTS
 Reqs = {"r1","r2","r3","r4","r5"}
 Procs <- P5
 Prio <- Pr5
 Configs <- C37
 MaxMach = 4
 MaxStops = 2
INVARIANTS Capacity Conservation NeedAccounting ExclusiveAlone PendingOK PendingIsOutstanding
PROPERTIES HealthyOnly
CHECK_DEADLOCK FALSE
