---- MODULE ClusterMC ----
EXTENDS Cluster
P4 == [r \in {"r1","r2","r3","r4"} |-> IF r \in {"r1","r3"} THEN 2 ELSE 1]
Pr4 == [r \in {"r1","r2","r3","r4"} |-> IF r \in {"r1","r2"} THEN 0 ELSE 1]
P5 == [r \in {"r1","r2","r3","r4","r5"} |-> CASE r = "r1" -> 3 [] r = "r2" -> 1 [] r = "r3" -> 2 [] r = "r4" -> 1 [] OTHER -> 3]
Pr5 == [r \in {"r1","r2","r3","r4","r5"} |-> IF r \in {"r1","r2"} THEN 0 ELSE 1]
C24 == {[mp |-> 2, maxp |-> 4]}
C37 == {[mp |-> 3, maxp |-> 7]}
====
