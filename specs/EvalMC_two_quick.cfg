SPECIFICATION Spec
CONSTANTS
 Shapes <- ShapesTwoQuick
 MaxLost = 2
 LossBudget = 1
 ErrBudget = 1
 InitStates = {"INIT", "OK"}
 AllowCancel = FALSE
 FixErr = TRUE
INVARIANTS TypeOK ErrorHasCause LostBudgetOK NotStuck AwaitedIsLive
PROPERTIES SubmitReady NoDoubleRun SuccessMeansDone NeededOnly
CHECK_DEADLOCK FALSE
