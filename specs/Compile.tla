------------------------------ MODULE Compile ------------------------------
(***************************************************************************)
(* The compiled task graph of an invocation (C08), exec/compile.go.         *)
(*                                                                          *)
(* A record is one generated program (a sequence of invocations, later     *)
(* ones taking the results of earlier ones as arguments) compiled with or  *)
(* without machine combiners.  For every invocation it carries six dumps   *)
(* of the task graph reachable from the compiled roots: in each of two     *)
(* separately started processes, the driver's compilation (Session.run),   *)
(* a repeated compilation, and worker.Compile of the gob-transported       *)
(* invocation (Result arguments as references, frozen CompileEnv, cache    *)
(* files changed since the driver looked).                                  *)
(*                                                                          *)
(*   Same          the six graphs are equal; the worker's name table has   *)
(*                 one entry per task                                       *)
(*   UniqueNames, Closed, Acyclic                                           *)
(*   Roots         one root per result shard, root p is shard p             *)
(*   OnePerShard   every stage (tasks with equal invocation and op) has     *)
(*                 exactly the shards 0..n-1                                *)
(*   Pipeline      a task's slice chain never continues through a shuffle  *)
(*                 dependency, a Materialize pragma, a multi-dependency    *)
(*                 slice or a Result                                        *)
(*   Wiring        shuffle consumer shard p reads partition p of every     *)
(*                 shard of the producer stage, whose partition count is   *)
(*                 the consumer's shard count; a non-shuffle consumer      *)
(*                 reads partition 0 of its own shard of a 1-partition     *)
(*                 producer                                                 *)
(*   CombineKeys   a task has a combine key iff it has a combiner and      *)
(*                 machine combiners are on; the key is the consumer's op  *)
(*   SameAcross    a task of an earlier invocation reached from a later    *)
(*                 one is that invocation's task                            *)
(***************************************************************************)
EXTENDS Integers, Sequences, FiniteSets, TLC, Json, IOUtils

Recs == ndJsonDeserialize("c08_records.ndjson")
VARIABLES s, bad
vars == <<s, bad>>

RangeSeq(q) == {q[j] : j \in DOMAIN q}
Tasks(g) == RangeSeq(g.tasks)
Names(g) == {t.name : t \in Tasks(g)}
T(g, n) == CHOOSE t \in Tasks(g) : t.name = n
DepNames(t) == UNION {RangeSeq(t.deps[d].tasks) : d \in DOMAIN t.deps}

UniqueNames(g) == \A i, j \in DOMAIN g.tasks : g.tasks[i].name = g.tasks[j].name => i = j
Closed(g) == /\ \A t \in Tasks(g) : DepNames(t) \subseteq Names(g)
             /\ \A t \in Tasks(g) : \A d \in DOMAIN t.deps : t.deps[d].tasks # <<>> /\ t.deps[d].head = t.deps[d].tasks[1]
             /\ RangeSeq(g.roots) \subseteq Names(g)

RECURSIVE Strip(_, _)
Strip(g, done) == LET n == {t.name : t \in {u \in Tasks(g) : DepNames(u) \subseteq done}}
                  IN IF n = done THEN done ELSE Strip(g, n)
Acyclic(g) == Strip(g, {}) = Names(g)

Roots(g, nshard) ==
  /\ Len(g.roots) = nshard
  /\ \A p \in 1..nshard : LET t == T(g, g.roots[p]) r1 == T(g, g.roots[1]) IN
        t.shard = p - 1 /\ t.nshard = nshard /\ t.inv = r1.inv /\ t.op = r1.op /\ t.npart = 1

Stage(g, t) == {u \in Tasks(g) : u.inv = t.inv /\ u.op = t.op}
AnyCached(g) == \E t \in Tasks(g) : t.cached
ShuffleProducers(g) == UNION {UNION {RangeSeq(t.deps[d].tasks) : d \in {e \in DOMAIN t.deps : Len(t.deps[e].tasks) > 1 \/ t.deps[e].part > 0}} : t \in Tasks(g)}
OnePerShard(g) ==
  \A t \in Tasks(g) :
    /\ t.nshard >= 1 /\ t.shard \in 0..(t.nshard - 1)
    /\ \A u \in Stage(g, t) : u.nshard = t.nshard
    /\ {u.shard : u \in Stage(g, t)} \subseteq 0..(t.nshard - 1)
    \* shards whose consumer reads a cache file are not reachable; elsewhere the stage is complete
    /\ (~AnyCached(g) \/ t.name \in RangeSeq(g.roots) \/ t.name \in ShuffleProducers(g))
         => {u.shard : u \in Stage(g, t)} = 0..(t.nshard - 1)

Pipeline(g) ==
  \A t \in Tasks(g) : LET c == t.slices n == Len(c) IN
    /\ n >= 1
    /\ \A i \in 1..n : /\ ~c[i].isresult
                       /\ c[i].nshard = t.nshard
                       /\ i < n => /\ c[i].ndep = 1
                                   /\ ~c[i].shuffle[1]
                                   /\ ~c[i].depmaterialize[1]
                                   /\ ~c[i].depresult[1]

WiredShuffle(g, t, L, d, mc) ==
  LET dep == t.deps[d]  P == dep.tasks  h == T(g, P[1]) IN
  /\ dep.part = t.shard
  /\ dep.expand = L.depexpand[d]
  /\ dep.ckey = (IF L.hascomb /\ mc THEN t.op ELSE "")
  /\ Len(P) = h.nshard
  /\ \A q \in 1..Len(P) : LET u == T(g, P[q]) IN
       /\ u.shard = q - 1 /\ u.inv = h.inv /\ u.op = h.op /\ u.nshard = h.nshard
       /\ u.npart = t.nshard
       /\ u.group = P
       /\ u.hascomb = L.hascomb
       /\ u.ckey = dep.ckey
       /\ u.custompart = L.deppart[d]

WiredDirect(g, t, L, d) ==
  LET dep == t.deps[d]  P == dep.tasks IN
  /\ dep.part = 0 /\ dep.ckey = "" /\ dep.expand = L.depexpand[d]
  /\ Len(P) = 1
  /\ LET u == T(g, P[1]) IN
       /\ u.shard = t.shard /\ u.nshard = t.nshard
       /\ u.npart = 1 /\ u.group = <<>> /\ ~u.hascomb /\ u.ckey = "" /\ ~u.custompart

Wiring(g, mc) ==
  \A t \in Tasks(g) :
    IF t.reshuf
    THEN \* re-partitions the output of an earlier invocation's task of the same shard
         /\ Len(t.deps) = 1 /\ t.deps[1].part = 0 /\ Len(t.deps[1].tasks) = 1
         /\ LET u == T(g, t.deps[1].tasks[1]) IN u.shard = t.shard /\ u.nshard = t.nshard /\ u.inv < t.inv /\ u.npart = 1
    ELSE IF t.cached THEN t.deps = <<>>
    ELSE LET L == t.slices[Len(t.slices)] IN
         /\ Len(t.deps) = L.ndep
         /\ \A d \in DOMAIN t.deps : IF L.shuffle[d] THEN WiredShuffle(g, t, L, d, mc) ELSE WiredDirect(g, t, L, d)

CombineKeys(g, mc) ==
  \A t \in Tasks(g) : /\ (t.ckey # "") = (t.hascomb /\ mc)
                      /\ t.npart >= 1
                      /\ t.group # <<>> => t.name \in RangeSeq(t.group)

\* tasks of earlier invocations are those invocations' tasks
SameAcross(r, k) ==
  \A t \in Tasks(r.invs[k].graphs[1]) :
     /\ t.inv \in 1..k
     /\ t.inv < k => t \in Tasks(r.invs[t.inv].graphs[1])

Fail(r, k, what) == [id |-> r.id, machcomb |-> r.machcomb, inv |-> k, what |-> what]
Chk(ok, r, k, what) == IF ok THEN <<>> ELSE <<Fail(r, k, what)>>

JudgeInv(r, k) ==
  LET v == r.invs[k] IN
  IF v.err # <<"", "">> THEN <<Fail(r, k, "CompileFails")>>
  ELSE IF v.werr # <<"", "">> THEN <<Fail(r, k, "WorkerCompileFails")>>
  ELSE LET g == v.graphs[1] IN
    Chk(\A j \in 2..Len(v.graphs) : v.graphs[j] = g, r, k, "SameGraphEverywhere")
    \o (IF ~UniqueNames(g) THEN <<Fail(r, k, "UniqueNames")>>
        ELSE IF ~Closed(g) THEN <<Fail(r, k, "Closed")>>
        ELSE Chk(\A j \in DOMAIN v.nnamed : v.nnamed[j] = Cardinality(Names(g)), r, k, "WorkerNameTableComplete")
             \o Chk(Acyclic(g), r, k, "Acyclic")
             \o Chk(Roots(g, v.nshard), r, k, "OneRootPerResultShard")
             \o Chk(OnePerShard(g), r, k, "OneTaskPerShardPerStage")
             \o Chk(Pipeline(g), r, k, "NoPipelineAcrossCut")
             \o Chk(Wiring(g, r.machcomb), r, k, "Wiring")
             \o Chk(CombineKeys(g, r.machcomb), r, k, "CombineKeys")
             \o Chk(SameAcross(r, k), r, k, "SameTaskAcrossInvocations"))

RECURSIVE JudgeFrom(_, _)
JudgeFrom(r, k) == IF k > Len(r.invs) THEN <<>> ELSE JudgeInv(r, k) \o JudgeFrom(r, k + 1)
Judge(r) == IF "panic" \in DOMAIN r THEN <<Fail(r, 0, "Panic")>> ELSE JudgeFrom(r, 1)

Step == /\ s <= Len(Recs) /\ bad' = bad \o Judge(Recs[s]) /\ s' = s + 1
Init == s = 1 /\ bad = <<>>
Spec == Init /\ [][Step]_vars
Dump == s <= Len(Recs) \/ JsonSerialize("c08_verdict.json", [n |-> Len(Recs), bad |-> bad])
=============================================================================
