SPECIFICATION Spec
INVARIANTS Dump
CHECK_DEADLOCK FALSE
