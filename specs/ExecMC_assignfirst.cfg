SPECIFICATION Spec
CONSTANTS
 Tasks <- T2
 Deps <- D2
 Faulty <- NoFaulty
 Roots <- R2
 Mach <- M3
 MaxKills = 1
 MaxDiscards = 1
 MaxLost = 2
 Variant = "assignfirst"
INVARIANTS TypeOK NoOrphanRunning NoOrphanWaiting OkIsOwned OwnedIsStored
CHECK_DEADLOCK FALSE
