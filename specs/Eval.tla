------------------------------- MODULE Eval -------------------------------
(***************************************************************************)
(* The bigslice evaluator: exec.Eval + exec.state (exec/eval.go) over the   *)
(* task state machine (exec/task.go), shared by concurrent evaluations and  *)
(* an abstract executor.  One action per critical section of the Go code:   *)
(*                                                                          *)
(*   Top(e)        eval.go: "for _, task := range roots {Enqueue}" + Done() *)
(*   Recv(e,t)     "case task := <-donec: state.Return(task)"               *)
(*   SubmitOne(e,t) one iteration of "for task := range state.Runnable()",  *)
(*                 under the task lock: LOST->INIT, runner election,        *)
(*                 INIT->WAITING, go executor.Run                           *)
(*   Wake(e,t)     the per-task goroutine after its two Wait loops, still   *)
(*                 under the task lock: the runner's consecutive-loss       *)
(*                 bookkeeping (-> ERROR at MaxLost)                        *)
(*   Post(e,t)     "donec <- task"                                          *)
(*   CancelExit(e) context cancelled: a waiter sends on errc, Eval returns  *)
(*   Exec*/Lose*   the executor / the world                                 *)
(*                                                                          *)
(* The task graph is a *variable* g (constant along a behaviour) so that    *)
(* one model covers a library of shapes and the trace specs can take the    *)
(* graph from the trace header.                                             *)
(***************************************************************************)
EXTENDS Integers, FiniteSets, Sequences, TLC

CONSTANTS Shapes,     \* set of graphs [tasks, phase, deps, roots]
          MaxLost,    \* maxConsecutiveLost (5 in the code)
          LossBudget, \* bound on environment loss events (exhaustive configs)
          ErrBudget,  \* bound on fatal task errors
          InitStates, \* allowed initial task states
          AllowCancel,
          FixErr      \* TRUE: Enqueue treats a failed task as never satisfied and records the
                      \* error (the code after the "fix:" commit); FALSE: the pinned code, which
                      \* treats ERROR like OK (eval.go "case TaskOk, TaskErr:")

States   == {"INIT","WAITING","RUNNING","OK","ERROR","LOST"}
Terminal == {"OK","ERROR","LOST"}

VARIABLES g,
          tstate, closs, active,
          losses, errs,
          todo, pend, deps, counts, wait, err, pc, donec, waiter, batch, res,
          lret, \* history: lret[e] = tasks evaluation e has received back (Recv) in state LOST
          okw   \* history: okw[e] = tasks seen OK since evaluation e last started a decision round
                \* (Start or Recv; the wait memo is reset only there, so Top may act on reads of
                \* that round -- the "benign race" of the code comments)

evars == <<todo, pend, deps, counts, wait, err, pc, donec, waiter, batch, res>>
vars  == <<g, tstate, closs, active, losses, errs, evars, okw, lret>>

Tasks    == g.tasks
Evals    == DOMAIN g.roots
PhaseSeq == g.phase
DepSeq   == g.deps
RootSeq  == g.roots

HeadOf(t)   == PhaseSeq[t][1]
RangeSeq(s) == {s[i] : i \in DOMAIN s}
DepTasks(t) == UNION {RangeSeq(PhaseSeq[h]) : h \in RangeSeq(DepSeq[t])}

-----------------------------------------------------------------------------
(* exec.state, threaded through the recursive Enqueue:                      *)
(*   st = [todo, pend, deps, counts, wait, err]                             *)

Sched(st, t) == IF t \in st.pend THEN st ELSE [st EXCEPT !.todo = @ \cup {t}]
Clear(st, t) == [st EXCEPT !.counts[t] = 0,
                           !.deps = [h \in Tasks |-> IF h \in RangeSeq(DepSeq[t]) THEN @[h] \ {t} ELSE @[h]]]
Add(st, src, dst, n) == IF dst \in st.deps[src] THEN st
                        ELSE [st EXCEPT !.deps[src] = @ \cup {dst}, !.counts[dst] = @ + n]

(* How Enqueue treats a task in state ERROR: see EnqPhase. *)
RECURSIVE Enq(_,_), EnqPhase(_,_,_,_), EnqDeps(_,_,_,_,_)
Enq(st, task) ==
  LET h == HeadOf(task) IN
  IF st.wait[h] >= 0 THEN [st |-> st, n |-> st.wait[h]]
  ELSE LET r == EnqPhase(st, PhaseSeq[h], 1, 0)
       IN [st |-> [r.st EXCEPT !.wait[h] = r.n], n |-> r.n]
EnqPhase(st, seq, i, nw) ==
  IF i > Len(seq) THEN [st |-> st, n |-> nw]
  ELSE LET tk == seq[i]
           s  == tstate[tk]
       IN IF s = "OK" THEN EnqPhase(st, seq, i+1, nw)
          ELSE IF s = "ERROR" THEN
               IF FixErr
               THEN \* a failed task is never satisfied; the evaluation's error is set.
                    EnqPhase([st EXCEPT !.err = IF @ = "none" THEN "task" ELSE @], seq, i+1, nw+1)
               ELSE EnqPhase(st, seq, i+1, nw)
          ELSE IF s \in {"WAITING","RUNNING"} THEN EnqPhase(Sched(st, tk), seq, i+1, nw+1)
          ELSE LET st1 == Clear(st, tk)
                   r   == EnqDeps(st1, tk, DepSeq[tk], 1, TRUE)
                   st2 == IF r.ready THEN Sched(r.st, tk) ELSE r.st
               IN EnqPhase(st2, seq, i+1, nw+1)
EnqDeps(st, tk, dseq, j, ready) ==
  IF j > Len(dseq) THEN [st |-> st, ready |-> ready]
  ELSE LET r == Enq(st, dseq[j])
       IN IF r.n = 0 THEN EnqDeps(r.st, tk, dseq, j+1, ready)
          ELSE EnqDeps(Add(r.st, dseq[j], tk, r.n), tk, dseq, j+1, FALSE)

RECURSIVE EnqAll(_,_,_)
EnqAll(st, seq, i) == IF i > Len(seq) THEN st ELSE EnqAll(Enq(st, seq[i]).st, seq, i+1)

RECURSIVE EnqSet(_,_)
EnqSet(st, S) == IF S = {} THEN st
                 ELSE LET x == CHOOSE y \in S : TRUE IN EnqSet(Enq(st, x).st, S \ {x})

St(e) == [todo |-> todo[e], pend |-> pend[e], deps |-> deps[e], counts |-> counts[e],
          wait |-> wait[e], err |-> err[e]]

IsDone(er, td, pd) == er # "none" \/ (td = {} /\ pd = {})

-----------------------------------------------------------------------------
EmptyFor(G) ==
  /\ closs  = [t \in G.tasks |-> 0]
  /\ active = [t \in G.tasks |-> FALSE]
  /\ todo   = [e \in DOMAIN G.roots |-> {}]
  /\ pend   = [e \in DOMAIN G.roots |-> {}]
  /\ deps   = [e \in DOMAIN G.roots |-> [t \in G.tasks |-> {}]]
  /\ counts = [e \in DOMAIN G.roots |-> [t \in G.tasks |-> 0]]
  /\ wait   = [e \in DOMAIN G.roots |-> [t \in G.tasks |-> -1]]
  /\ err    = [e \in DOMAIN G.roots |-> "none"]
  /\ pc     = [e \in DOMAIN G.roots |-> "new"]
  /\ donec  = [e \in DOMAIN G.roots |-> {}]
  /\ waiter = [e \in DOMAIN G.roots |-> [t \in G.tasks |-> "none"]]
  /\ batch  = [e \in DOMAIN G.roots |-> {}]
  /\ res    = [e \in DOMAIN G.roots |-> "none"]
  /\ okw    = [e \in DOMAIN G.roots |-> {}]
  /\ lret   = [e \in DOMAIN G.roots |-> {}]

Init ==
  /\ g \in Shapes
  /\ tstate \in [g.tasks -> InitStates]
  /\ losses = 0 /\ errs = 0
  /\ EmptyFor(g)

(* Eval is called. *)
Start(e) ==
  /\ pc[e] = "new"
  /\ pc' = [pc EXCEPT ![e] = "top"]
  /\ UNCHANGED <<g, tstate, closs, active, losses, errs, todo, pend, deps, counts, wait, err, donec, waiter, batch, res>>

(* top of the outer loop: enqueue roots; return if done; else wait or submit *)
Top(e) ==
  /\ pc[e] = "top"
  /\ LET st   == EnqAll(St(e), RootSeq[e], 1)
         done == IsDone(st.err, st.todo, pend[e])
         sub  == ~done /\ st.todo # {}
     IN
     /\ deps'   = [deps   EXCEPT ![e] = st.deps]
     /\ counts' = [counts EXCEPT ![e] = st.counts]
     /\ wait'   = [wait   EXCEPT ![e] = st.wait]
     /\ err'    = [err    EXCEPT ![e] = st.err]
     /\ todo'   = [todo   EXCEPT ![e] = IF sub THEN {} ELSE st.todo]
     /\ pend'   = [pend   EXCEPT ![e] = IF sub THEN @ \cup st.todo ELSE @]
     /\ batch'  = [batch  EXCEPT ![e] = IF sub THEN st.todo ELSE @]
     /\ pc'     = [pc     EXCEPT ![e] = IF done THEN "done" ELSE IF sub THEN "submit" ELSE "wait"]
     /\ res'    = [res    EXCEPT ![e] = IF done THEN (IF st.err = "none" THEN "ok" ELSE "err") ELSE @]
  /\ UNCHANGED <<g, tstate, closs, active, losses, errs, donec, waiter>>

(* main loop receives a finished task from donec: state.Return *)
Recv(e, t) ==
  /\ pc[e] = "wait"
  /\ t \in donec[e]
  /\ donec' = [donec EXCEPT ![e] = @ \ {t}]
  /\ LET st0 == [St(e) EXCEPT !.wait = [x \in Tasks |-> -1], !.pend = pend[e] \ {t}]
         s == tstate[t]
         st1 == CASE s = "ERROR" -> [st0 EXCEPT !.err = "task"]
                  [] s = "OK" ->
                       LET dsts == st0.deps[HeadOf(t)]
                           cnt1 == [x \in Tasks |-> IF x \in dsts THEN st0.counts[x] - 1 ELSE st0.counts[x]]
                           ready == {x \in dsts : cnt1[x] = 0}
                       IN EnqSet([st0 EXCEPT !.counts = cnt1], ready)
                  [] s = "LOST" -> Enq(st0, t).st
                  [] OTHER -> Sched(st0, t)
         done == IsDone(st1.err, st1.todo, st1.pend)
         sub == st1.todo # {}
     IN
     /\ err'    = [err    EXCEPT ![e] = st1.err]
     /\ deps'   = [deps   EXCEPT ![e] = st1.deps]
     /\ counts' = [counts EXCEPT ![e] = st1.counts]
     /\ wait'   = [wait   EXCEPT ![e] = st1.wait]
     /\ todo'   = [todo   EXCEPT ![e] = IF sub THEN {} ELSE st1.todo]
     /\ pend'   = [pend   EXCEPT ![e] = IF sub THEN st1.pend \cup st1.todo ELSE st1.pend]
     /\ batch'  = [batch  EXCEPT ![e] = IF sub THEN st1.todo ELSE @]
     /\ pc'     = [pc     EXCEPT ![e] = IF sub THEN "submit" ELSE IF done THEN "top" ELSE "wait"]
  /\ UNCHANGED <<g, tstate, closs, active, losses, errs, waiter, res>>

(* one iteration of the submit loop, under the task lock *)
SubmitOne(e, t) ==
  /\ pc[e] = "submit"
  /\ t \in batch[e]
  /\ LET s0 == tstate[t]
         s1 == IF s0 = "LOST" THEN "INIT" ELSE s0
         runner == s1 = "INIT"
     IN
     /\ tstate' = [tstate EXCEPT ![t] = IF runner THEN "WAITING" ELSE s1]
     /\ active' = [active EXCEPT ![t] = IF runner THEN TRUE ELSE @]
     /\ waiter' = [waiter EXCEPT ![e][t] = IF runner THEN "r" ELSE "n"]
  /\ batch' = [batch EXCEPT ![e] = @ \ {t}]
  /\ pc' = [pc EXCEPT ![e] = IF batch[e] = {t} THEN "top" ELSE @]
  /\ UNCHANGED <<g, closs, losses, errs, todo, pend, deps, counts, wait, err, donec, res>>

(* the per-task goroutine has seen state >= OK; the runner bookkeeps consecutive losses *)
Wake(e, t) ==
  /\ waiter[e][t] \in {"r","n"}
  /\ tstate[t] \in Terminal
  /\ LET runner == waiter[e][t] = "r"
         s == tstate[t]
         cl == IF ~runner THEN closs[t]
               ELSE IF s = "OK" THEN 0 ELSE IF s = "LOST" THEN closs[t] + 1 ELSE closs[t]
         giveup == runner /\ s = "LOST" /\ cl >= MaxLost
     IN /\ closs' = [closs EXCEPT ![t] = cl]
        /\ tstate' = [tstate EXCEPT ![t] = IF giveup THEN "ERROR" ELSE @]
  /\ waiter' = [waiter EXCEPT ![e][t] = "p"]
  /\ UNCHANGED <<g, active, losses, errs, todo, pend, deps, counts, wait, err, pc, donec, batch, res>>

Post(e, t) ==
  /\ waiter[e][t] = "p"
  /\ waiter' = [waiter EXCEPT ![e][t] = "none"]
  /\ donec' = [donec EXCEPT ![e] = @ \cup {t}]
  /\ UNCHANGED <<g, tstate, closs, active, losses, errs, todo, pend, deps, counts, wait, err, pc, batch, res>>

(* the caller's context is cancelled while the evaluation waits: some waiting goroutine sends
   the context error on errc and Eval returns it *)
CancelExit(e) ==
  /\ AllowCancel
  /\ pc[e] = "wait"
  /\ \E t \in Tasks : waiter[e][t] \in {"r","n"}
  /\ pc' = [pc EXCEPT ![e] = "done"]
  /\ res' = [res EXCEPT ![e] = "cancelled"]
  /\ waiter' = [waiter EXCEPT ![e] = [t \in Tasks |-> IF @[t] \in {"r","n"} THEN "none" ELSE @[t]]]
  /\ UNCHANGED <<g, tstate, closs, active, losses, errs, todo, pend, deps, counts, wait, err, donec, batch>>

(* executor and world *)
ExecStart(t) == /\ active[t] /\ tstate[t] = "WAITING"
                /\ tstate' = [tstate EXCEPT ![t] = "RUNNING"]
                /\ UNCHANGED <<g, closs, active, losses, errs, evars>>
ExecEnd(t, s) == /\ active[t] /\ tstate[t] \in {"WAITING","RUNNING"}
                 /\ s = "OK" => tstate[t] = "RUNNING"
                 /\ s = "LOST" => losses < LossBudget
                 /\ s = "ERROR" => errs < ErrBudget
                 /\ tstate' = [tstate EXCEPT ![t] = s]
                 /\ active' = [active EXCEPT ![t] = FALSE]
                 /\ losses' = IF s = "LOST" THEN losses + 1 ELSE losses
                 /\ errs' = IF s = "ERROR" THEN errs + 1 ELSE errs
                 /\ UNCHANGED <<g, closs, evars>>
(* a completed task's output disappears: machine loss, or Discard *)
LoseOK(t) == /\ tstate[t] = "OK" /\ losses < LossBudget
             /\ tstate' = [tstate EXCEPT ![t] = "LOST"]
             /\ losses' = losses + 1
             /\ UNCHANGED <<g, closs, active, errs, evars>>

EnvNext == \E t \in Tasks : ExecStart(t) \/ LoseOK(t) \/ \E s \in Terminal : ExecEnd(t, s)
SysNext == \/ \E e \in Evals : Start(e) \/ Top(e) \/ CancelExit(e)
           \/ \E e \in Evals, t \in Tasks : Recv(e,t) \/ SubmitOne(e,t) \/ Wake(e,t) \/ Post(e,t)
UpdOkw == okw' = [e \in Evals |->
             IF (pc[e] = "new" /\ pc'[e] = "top") \/ (donec[e] \ donec'[e] # {})
             THEN {t \in Tasks : tstate[t] = "OK"}
             ELSE okw[e] \cup {t \in Tasks : tstate'[t] = "OK"}]
UpdLret == lret' = [e \in Evals |-> lret[e] \cup {t \in donec[e] \ donec'[e] : tstate[t] = "LOST"}]
Next == (SysNext \/ EnvNext) /\ UpdOkw /\ UpdLret

Spec == Init /\ [][Next]_vars
(* progress: every evaluator/goroutine step and the executor are weakly fair; losses are bounded
   by the LossBudget *variable* (not a state constraint), so cycles are not hidden. *)
FairSpec == Spec /\ WF_vars(SysNext /\ UpdOkw /\ UpdLret)
                 /\ \A t \in UNION {G.tasks : G \in Shapes} :
                        WF_vars(t \in Tasks /\ (ExecStart(t) \/ ExecEnd(t, "OK")) /\ UpdOkw /\ UpdLret)

-----------------------------------------------------------------------------
(* Properties (C03) *)
TypeOK == /\ \A t \in Tasks : tstate[t] \in States
          /\ \A e \in Evals : todo[e] \cap pend[e] = {}

(* a task is scheduled for hand-off only if every dependency task was OK at some moment of this
   evaluation's current decision round (the code's documented benign race: a dependency may be
   lost between the look and the hand-off) *)
ReadyAtDecision(e) ==
  \A t \in (todo'[e] \cup batch'[e]) \ (todo[e] \cup batch[e]) :
     tstate[t] \in {"INIT","LOST"} => \A d \in DepTasks(t) : d \in okw'[e]
SubmitReady == [][\A e \in Evals : ReadyAtDecision(e)]_vars

(* never two runs of one task at the same time *)
NoDoubleRun == [][\A e \in Evals, t \in Tasks :
                    (waiter[e][t] # "r" /\ waiter'[e][t] = "r") => ~active[t]]_vars

(* success only if every root was seen OK in the evaluation's last decision round (the wait memo of
   that round may be stale by the time Top returns: the same benign race as for hand-off) *)
SuccessMeansDone == [][\A e \in Evals : (res[e] = "none" /\ res'[e] = "ok") =>
                          \A r \in RangeSeq(RootSeq[e]) : r \in okw'[e]]_vars

ErrorHasCause == \A e \in Evals : res[e] = "err" => \E t \in Tasks : tstate[t] = "ERROR"

LostBudgetOK == \A t \in Tasks : closs[t] <= MaxLost

(* never idle with work outstanding: while waiting, some awaited task is being run by someone,
   or its completion is on its way (goroutine about to wake/post, or message queued) *)
NotStuck == \A e \in Evals : pc[e] = "wait" =>
               \/ donec[e] # {}
               \/ \E t \in pend[e] : waiter[e][t] = "p"
               \/ \E t \in pend[e] : waiter[e][t] \in {"r","n"} /\ (active[t] \/ tstate[t] \in Terminal)

AwaitedIsLive == \A e \in Evals, t \in Tasks :
                    waiter[e][t] \in {"r","n"} => (active[t] \/ tstate[t] \in Terminal)

(* never runs tasks the roots do not need.  NeededFrom(S): S and, for every not-OK task in it,
   all tasks of each dependency phase, transitively.  Checked when the evaluation decides.
   The code has one known deviation (known finding KF-C03-needed): Return() re-enqueues a task it
   receives in state LOST ("Re-enqueue immediately") without asking whether anything still needs
   it, so a completed-then-lost task whose completion message was still queued is re-run even if
   every root is already OK, and the evaluation then keeps working towards it; likewise, when
   a returned task clears the waitlist of a dependent, that dependent is enqueued although a
   concurrent evaluation may meanwhile have completed every root.  NeededOnly allows exactly
   these (tasks received back LOST, and tasks whose waitlist was just cleared, count as needed);
   NeededOnlyStrict does not. *)
NeededFrom(S0) ==
  LET RECURSIVE N(_)
      N(S) == LET S2 == S \cup UNION {DepTasks(t) : t \in {x \in S : tstate[x] # "OK"}}
              IN IF S2 = S THEN S ELSE N(S2)
  IN N(S0)
PhasesOf(S) == UNION {RangeSeq(PhaseSeq[r]) : r \in S}
NewlyDecided(e) == (todo'[e] \cup batch'[e]) \ (todo[e] \cup batch[e])
NeededOnlyStrict == [][\A e \in Evals :
                        NewlyDecided(e) \subseteq NeededFrom(PhasesOf(RangeSeq(RootSeq[e])))]_vars
NeededOnly == [][\A e \in Evals :
                  LET cleared == {x \in Tasks : counts[e][x] > 0 /\ counts'[e][x] = 0} IN
                  NewlyDecided(e) \subseteq NeededFrom(PhasesOf(RangeSeq(RootSeq[e]) \cup lret'[e] \cup cleared))]_vars

(* an evaluation that has started eventually returns (liveness; FairSpec) *)
Terminates == \A e \in UNION {DOMAIN G.roots : G \in Shapes} :
                 [](e \in Evals /\ pc[e] = "top" => <>(pc[e] = "done"))
=============================================================================
