---------------------------- MODULE ScanResume ----------------------------
(***************************************************************************)
(* Scanning a result while machines are lost (C02):                         *)
(* exec/bigmachine.go evalOpenerAt + retryReader + decodingReader.          *)
(*                                                                          *)
(* A task's output is a sequence of batches; a batch is a sequence of rows  *)
(* protected by a checksum, so a reader either gets a whole batch or an     *)
(* integrity error.  The output lives on one machine.  The scanner reads    *)
(* bytes (here: rows, the unit of offset) and remembers how many it has     *)
(* consumed (retryReader.bytes).  When its connection breaks it calls       *)
(* OpenAt(offset): the task is re-evaluated if its output is gone (Eval),   *)
(* and the read resumes at `offset` of WHATEVER output is there now.        *)
(*                                                                          *)
(* Recompute picks the new output from Outputs(task): the set of byte       *)
(* streams a computation of the task may produce.  For a reproducible task  *)
(* this is a singleton; for a pass-through shuffle consumer (Reshuffle,     *)
(* Repartition, Reshard) it has one element per order in which the          *)
(* producers may be read (exec.DoShuffleReaders), and before d48fff6 the    *)
(* same held for Fold (map iteration order).                                *)
(*                                                                          *)
(*   RowsExact   when the scan ends successfully, the rows delivered are    *)
(*               the rows of the task (as a bag)                            *)
(*   Completes   (liveness) with finitely many losses the scan ends         *)
(*               successfully                                               *)
(* TLC: both hold with Reproducible = TRUE (ScanResume_repro.cfg) and       *)
(* RowsExact fails with Reproducible = FALSE (ScanResume_order.cfg) with    *)
(* exactly the recorded history of known finding                            *)
(* KF-C02-scan-resume-recomputed: loss after a whole batch, recomputation   *)
(* in another order, resume at the batch boundary.                          *)
(***************************************************************************)
EXTENDS Integers, Sequences, FiniteSets, TLC

CONSTANTS Rows,          \* the rows of the task's output (a set: all distinct)
          BatchSize,     \* rows per batch
          MaxLosses,     \* machine losses the environment may inflict
          Reproducible   \* TRUE: one possible output; FALSE: any order of Rows

Perms(S) == {f \in [1..Cardinality(S) -> S] : \A i, j \in 1..Cardinality(S) : f[i] = f[j] => i = j}
AnyOrder == CHOOSE f \in Perms(Rows) : TRUE
Outputs == IF Reproducible THEN {AnyOrder} ELSE Perms(Rows)
N == Cardinality(Rows)

VARIABLES out,        \* the output currently stored (a sequence of rows), or <<>> if lost
          present,    \* whether the output is on a live machine
          open,       \* the scanner has an open connection
          offset,     \* rows consumed so far (retryReader.bytes)
          inbatch,    \* rows of the current, incomplete batch received but not yet delivered
          delivered,  \* rows handed to the user so far
          status,     \* "scanning", "ok", "err"
          losses
vars == <<out, present, open, offset, inbatch, delivered, status, losses>>

Init == /\ out \in Outputs /\ present = TRUE /\ open = FALSE /\ offset = 0 /\ inbatch = <<>>
        /\ delivered = <<>> /\ status = "scanning" /\ losses = 0

\* first row index of the batch that contains row index k (1-based)
BatchStart(k) == ((k - 1) \div BatchSize) * BatchSize + 1
BatchEnd(k) == IF BatchStart(k) + BatchSize - 1 > N THEN N ELSE BatchStart(k) + BatchSize - 1

(* evalOpenerAt.OpenAt: make sure the output exists (recomputing it if it was lost), open at offset *)
OpenAt == /\ status = "scanning" /\ ~open
          /\ IF present THEN out' = out ELSE out' \in Outputs
          /\ present' = TRUE /\ open' = TRUE
          /\ UNCHANGED <<offset, inbatch, delivered, status, losses>>

(* one row arrives; a batch is delivered to the user when it is complete and its checksum matches:
   the decoder was positioned at a batch boundary when the stream was first opened, and it simply
   continues in whatever bytes follow, so the "batch" it checks is inbatch \o (new rows) *)
ReadRow == /\ status = "scanning" /\ open /\ present /\ offset < N
           /\ LET k == offset + 1
                  got == Append(inbatch, out[k])
                  complete == k = BatchEnd(k)
                  \* the checksum of a batch covers its rows in order: it matches iff the rows assembled
                  \* are exactly one batch of the stream they now come from
                  intact == got = SubSeq(out, BatchStart(k), BatchEnd(k))
              IN /\ offset' = k
                 /\ IF ~complete THEN inbatch' = got /\ delivered' = delivered /\ status' = status
                    ELSE IF intact THEN inbatch' = <<>> /\ delivered' = delivered \o got /\ status' = status
                    ELSE inbatch' = <<>> /\ delivered' = delivered /\ status' = "err"   \* integrity error
           /\ UNCHANGED <<out, present, open, losses>>

Finish == /\ status = "scanning" /\ open /\ present /\ offset = N
          /\ status' = "ok" /\ UNCHANGED <<out, present, open, offset, inbatch, delivered, losses>>

(* the machine holding the output dies: connection and output are gone *)
Lose == /\ status = "scanning" /\ present /\ losses < MaxLosses
        /\ present' = FALSE /\ open' = FALSE /\ losses' = losses + 1
        /\ UNCHANGED <<out, offset, inbatch, delivered, status>>

Next == OpenAt \/ ReadRow \/ Finish \/ Lose
Spec == Init /\ [][Next]_vars
FairSpec == Spec /\ WF_vars(OpenAt) /\ WF_vars(ReadRow) /\ WF_vars(Finish)

Range(q) == {q[j] : j \in DOMAIN q}
RowsExact == status = "ok" => (Len(delivered) = N /\ Range(delivered) = Rows)
NoError == status # "err"
Completes == <>(status = "ok")
TypeOK == offset \in 0..N /\ Len(inbatch) < BatchSize + 1 /\ losses \in 0..MaxLosses
=============================================================================
