SPECIFICATION FairSpec
CONSTANTS
 Shapes <- ShapesLive
 MaxLost = 2
 LossBudget = 2
 ErrBudget = 1
 InitStates = {"INIT", "OK"}
 AllowCancel = FALSE
 FixErr = TRUE
INVARIANTS TypeOK
PROPERTIES Terminates
CHECK_DEADLOCK FALSE
