"""C03 — evaluator: tasks start only when ready; success only when done; always progress.

Pipeline (DESIGN.md §4 C03):
  1. TLC exhaustive check of specs/Eval.tla (shape library, all initial states, all interleavings).
  2. TLC -simulate of specs/EvalGen.tla -> environment schedules.
  3. Go harness (harness/c03) replays every schedule on the real exec.Eval, step-synchronously
     (hooks = quiescence signals, EvalPost = gate), and records NDJSON traces.
  4. TLC EvalMon.tla judges the traces (property monitors)            -> VIOLATION / KNOWN-FINDING
  5. TLC EvalTrace.tla checks the traces are behaviours of Eval.tla   -> DRIFT (never an alarm)
  6. binding self-test: a corrupted copy of an accepted trace must be rejected.
"""
import glob
import json
import os
import shutil
import sys

sys.path.insert(0, '/verif/lib')
import vlib
from vlib import Inconclusive

META = {
    'technique': 'TLA+ model of exec.Eval checked exhaustively by TLC; TLC-simulated schedules replayed step-synchronously into the real Eval via verif hooks; recorded traces judged by a TLA+ monitor spec and validated against the model',
    'level_text': 'model_checking: every interleaving of evaluator/goroutine/executor steps is explored on a library of small task graphs (all initial task states, bounded losses/errors); the model is bound to exec/eval.go by replaying TLC-generated schedules into the real code and validating the recorded hook traces against the same spec and against property monitors evaluated at every event',
    'level_note': 'trusted: compat layer, hook placement (events under the task lock / in the Eval goroutine), harness quiescence detection, TLC. Enqueue is modelled atomic (it takes each task lock separately); free-running two-evaluation runs cover the non-atomic reading only by sampling.',
}

MAXLOST = 5


def gen_schedules(chk, wdir, tier):
    """TLC -simulate EvalGen -> list of schedules (dedup)."""
    plan = [('EvalGen.cfg', 120 if tier == 'quick' else 1500, 60),
            ('EvalGen_lossy.cfg', 40 if tier == 'quick' else 300, 80),
            ('EvalGen_cancel.cfg', 30 if tier == 'quick' else 200, 50)]
    scheds, seen = [], set()
    for i, (cfg, num, depth) in enumerate(plan):
        d = '%s/gen%d' % (wdir, i)
        os.makedirs(d + '/gen', exist_ok=True)
        r = vlib.tlc(d, 'EvalGen', cfg, simulate='num=%d' % num, depth=depth, workers=1,
                     seedv=vlib.seed() * 101 + i, timeout=900)
        if 'Error:' in r.out and 'Simulation using seed' not in r.out:
            raise Inconclusive('EvalGen failed: ' + r.out[-2000:])
        chk.cov['tlc_runs'].append({'name': 'simulate ' + cfg, 'generated': r.generated, 'wall_s': round(r.wall, 1)})
        for f in sorted(glob.glob(d + '/gen/b*.json')):
            b = json.load(open(f))
            sc = {'tasks': sorted(b['tasks']), 'deps': b['deps'], 'phase': b['phase'], 'roots': b['roots'],
                  'init': b['init'], 'steps': b['steps']}
            key = json.dumps(sc, sort_keys=True)
            if key in seen or not b['steps']:
                continue
            seen.add(key)
            sc['id'] = 'g%d-%s' % (i, os.path.basename(f)[:-5])
            scheds.append(sc)
    return scheds


def fixed_schedules():
    p = vlib.V + '/checks/c03_regress.json'
    return json.load(open(p)) if os.path.exists(p) else []


def model_check(chk, wdir, tier):
    cfgs = [('EvalMC_quick.cfg', 300)] if tier == 'quick' else \
        [('EvalMC_small1.cfg', 1500), ('EvalMC_small2.cfg', 2400), ('EvalMC_live.cfg', 1500)]
    for cfg, to in cfgs:
        r = vlib.tlc(wdir + '/mc', 'EvalMC', cfg, workers=vlib.NCPU, timeout=to)
        vlib.tlc_must_parse(r, cfg)
        chk.add_tlc('exhaustive ' + cfg, r)
        if r.violated or not r.ok:
            # A design-level counterexample is not a verdict on the code (DESIGN §2.4): the replayed
            # schedules + monitors decide. Report as inconclusive model drift.
            raise Inconclusive('design model %s: TLC reports %s (model and code disagree or model bug):\n%s'
                               % (cfg, r.violated or r.error, r.out[-1500:]))


def judge(chk, wdir, traces_path, name):
    d = '%s/%s' % (wdir, name)
    r = vlib.tlc(d, 'EvalMon', 'EvalMon.cfg', files={'c03_traces.ndjson': traces_path}, workers=1, timeout=1200)
    vp = d + '/c03_verdict.json'
    if not os.path.exists(vp):
        raise Inconclusive('EvalMon produced no verdict:\n' + r.out[-3000:])
    chk.add_tlc('EvalMon ' + name, r)
    return json.load(open(vp)), r


def conformance(chk, wdir, traces_path, name):
    d = '%s/%s' % (wdir, name)
    r = vlib.tlc(d, 'EvalTrace', 'EvalTrace.cfg', files={'c03_traces.ndjson': traces_path}, workers=1,
                 timeout=1200, java_opts='-Dtlc2.tool.queue.IStateQueue=StateDeque')
    vp = d + '/c03_conf.json'
    if not os.path.exists(vp):
        return None, r
    chk.add_tlc('EvalTrace ' + name, r)
    return json.load(open(vp)), r


def drift_check(chk, w, wdir, recs, scheds, tag=''):
    """Conformance of the recorded traces to Eval.tla (EvalTrace.tla); reports DRIFT lines, never a violation."""
    # conformance (drift only): every recorded trace must be a behaviour of Eval.tla (EvalTrace.tla).
    # A trace TLC cannot match is reported as DRIFT (the exhaustive results for Eval.tla no longer speak
    # for this tree) and taken out; it is never a violation by itself.
    drift, left, conf_n = [], list(recs), 0
    for attempt in range(6):
        cp = w.out('c03_conf_in_%s%d.ndjson' % (tag, attempt))
        vlib.write_ndjson(cp, left)
        conf, rc = conformance(chk, wdir, cp, 'conf%s%d' % (tag, attempt))
        if conf is None:
            chk.cov['drift'] = -1
            print('DRIFT property=%s EvalTrace did not complete: %s' % (chk.pid, rc.error or rc.out[-300:]))
            break
        if conf['reached'] >= conf['n']:
            conf_n = len({r_['tr'] for r_ in left})
            break
        stuck = left[conf['reached']]
        drift.append({'tr': stuck['tr'], 'seq': stuck['seq'], 'ev': stuck['ev']})
        print('DRIFT property=%s trace %s (schedule %s) is not a behaviour of Eval.tla at record seq %s (%s)' % (chk.pid, 
            stuck['tr'], scheds[stuck['tr'] - 1].get('id'), stuck['seq'], stuck['ev']))
        left = [r_ for r_ in left if r_['tr'] != stuck['tr']]
    if chk.cov.get('drift') != -1:
        chk.cov['drift'] = len(drift)
        chk.cov['drift_traces'] = drift
        chk.cov['conformance_accepted_traces'] = conf_n
    # binding self-test of the conformance direction: a flipped runner flag must be rejected
    if conf_n:
        k = next((i for i, r_ in enumerate(left) if r_['ev'] == 'EvalSubmit'), None)
        if k is not None:
            cut = [dict(r_) for r_ in left[:k + 200]]
            cut[k]['runner'] = not cut[k]['runner']
            cp = w.out('c03_conf_selftest.ndjson')
            vlib.write_ndjson(cp, cut)
            conf2, _ = conformance(chk, wdir, cp, 'confself')
            ok2 = conf2 is not None and conf2['reached'] < conf2['n']
            chk.cov['conformance_selftest'] = {'corrupted_record': k + 1, 'rejected_at': conf2 and conf2['reached'] + 1, 'ok': ok2}
            if not ok2:
                raise Inconclusive('conformance self-test failed: a corrupted trace was accepted by EvalTrace.tla')


def run(tier, replay=None):
    chk = vlib.Check('C03', tier)
    chk.assumptions = vlib.TRUSTED + ['Enqueue modelled as one atomic step']
    with vlib.WorkCopy('c03', harness=['c03']) as w:
        wdir = w.root + '/tlc'
        if replay:
            rp = json.load(open(os.path.join(replay, 'replay.json')))
            scheds = [rp['payload']['schedule']]
        else:
            model_check(chk, wdir, tier)
            scheds = fixed_schedules() + gen_schedules(chk, wdir, tier)
        json.dump(scheds, open(w.out('scheds.json'), 'w'))
        p = w.gotest('./exec/', 'TestVerifC03$', env={'VERIF_SCHEDS': w.out('scheds.json')}, timeout=1500)
        tp = w.out('c03_traces.ndjson')
        if p.returncode != 0 or not os.path.exists(tp):
            raise Inconclusive('replay harness failed:\n' + (p.stdout or '')[-3000:])
        recs = vlib.read_ndjson(tp)
        ntr = sum(1 for r in recs if r['ev'] == 'Begin')
        if ntr != len(scheds):
            raise Inconclusive('harness recorded %d traces for %d schedules' % (ntr, len(scheds)))
        kinds = set(r['ev'] for r in recs)
        need = {'EvalStart', 'EvalTop', 'EvalIdle', 'EvalRecv', 'EvalReturn', 'EvalSubmit', 'EvalWake',
                'EvalPost', 'EvalExit', 'TaskState', 'ExecRun'}
        if not need <= kinds:
            raise Inconclusive('hook events missing from the recorded traces: %s' % sorted(need - kinds))
        verdict, r = judge(chk, wdir, tp, 'mon')
        if verdict['n'] != len(recs):
            raise Inconclusive('EvalMon consumed %d of %d records' % (verdict['n'], len(recs)))
        chk.cov['traces_validated_against_impl'] = ntr
        by_tr = {}
        for r_ in recs:
            by_tr.setdefault(r_['tr'], []).append(r_)
        skipped = sum(1 for r_ in recs if r_['ev'] == 'Skip')
        chk.cov['env_steps_skipped_as_illegal'] = skipped
        chk.cov['events'] = len(recs)
        for sc in scheds:
            chk.case({k: sc[k] for k in ('tasks', 'deps', 'roots', 'init', 'steps')},
                     nontrivial=len(sc['steps']) >= 3)
        for sc in scheds[:3]:
            chk.sample({'schedule': sc})
        chk.sample({'trace_head': by_tr.get(1, [])[:12]})
        chk.cov['rule'] = ('schedules = environment steps of TLC-simulated behaviours of EvalGen.tla (+ committed regression '
                           'schedules); distinct by (graph, roots, initial states, steps); non-trivial = at least 3 environment steps')
        seen_v = set()
        for b in verdict['bad']:
            sc = scheds[b['tr'] - 1]
            ident = {'monitor': b['mon'], 'cause': b.get('cause', '')}
            key = (b['tr'], b['mon'], b.get('cause', ''))
            if key in seen_v:
                continue
            seen_v.add(key)
            chk.violation(ident, 'monitor %s failed at seq %s (e=%s t=%s cause=%s) in schedule %s' % (
                b['mon'], b['seq'], b.get('e'), b.get('t'), b.get('cause'), sc.get('id')),
                {'schedule': sc, 'monitor': b, 'trace': by_tr.get(b['tr'], [])})
        drift_check(chk, w, wdir, recs, scheds)
        # binding self-test: dropping the OK of a dependency must trip SubmitReady
        st = selftest(chk, wdir, recs)
        chk.cov['binding_selftest'] = st
        if st.get('ok') is False:
            raise Inconclusive('binding self-test failed: corrupted trace was not rejected: %s' % st)
        return chk.finish()


def selftest(chk, wdir, recs):
    """Corrupt one accepted trace: rewrite the logged OK states of a dependency of a runner submit."""
    cur, hdr = [], None
    traces = []
    for r in recs:
        if r['ev'] == 'Begin':
            if cur:
                traces.append(cur)
            cur = []
        cur.append(r)
    if cur:
        traces.append(cur)
    for tr in traces:
        hdr = tr[0]
        for i, r in enumerate(tr):
            if r['ev'] == 'EvalSubmit' and r.get('runner') and hdr['deps'].get(r['t']):
                dep = hdr['deps'][r['t']][0]
                if hdr['init'].get(dep) != 'INIT':
                    continue
                bad, changed = [], 0
                for j, x in enumerate(tr):
                    if j < i and x.get('t') == dep and x.get('st') == 'OK':
                        x = dict(x, st='LOST')
                        changed += 1
                    bad.append(x)
                if not changed:
                    continue
                p = wdir + '/selftest.ndjson'
                vlib.write_ndjson(p, bad)
                d = wdir + '/selftest'
                r2 = vlib.tlc(d, 'EvalMon', 'EvalMon.cfg', files={'c03_traces.ndjson': p}, workers=1, timeout=300)
                vp = d + '/c03_verdict.json'
                if not os.path.exists(vp):
                    return {'ok': None, 'note': 'selftest TLC failed'}
                v = json.load(open(vp))
                hit = any(b['mon'] == 'SubmitReady' for b in v['bad'])
                return {'ok': hit, 'corruption': 'every logged OK of dependency %s before the hand-out of %s rewritten to LOST' % (dep, r['t']),
                        'rejected_by': sorted(set(b['mon'] for b in v['bad']))}
    return {'ok': None, 'note': 'no suitable trace'}
