"""C11 — frame views are transparent and never touch rows outside the view.

Operation sequences (slice, copy in/out, swap, zero, less, hash, append, grow, ensure, prefixed,
sort) are applied to views of real frames by harness/c11; after every operation the view's rows,
len/cap/prefix and the whole parent storage are recorded. specs/FrameView.tla is the slice-of-rows
model (Go slice semantics incl. the growth rule); TLC replays every recorded step through the model
and compares the full state.
"""
import json
import os
import random
import sys

sys.path.insert(0, '/verif/lib')
import vlib
from vlib import Inconclusive

META = {
    'technique': 'TLA+ slice-of-rows model of frame views (FrameView.tla); recorded operation sequences on real frames validated step by step by TLC with full-state comparison (view rows, len/cap, whole parent storage); includes Copy between overlapping sub-views of one frame (memmove semantics)',
    'level_text': 'model_checking of recorded behaviour: every operation of every sequence is one action of the FrameView model; the real frame must agree with the model on the view rows, len, cap, prefix, the operation result and the entire parent storage after each step; sequences sweep all view offsets/lengths of a small storage, column type combinations (pointer-free, strings, structs, byte slices) and operation orders',
    'level_note': 'value-level only: write-barrier/aliasing safety of the unsafe copies is outside this technique; key (prefix) columns are numeric so that TLA+ can order them; Hash is checked for position-independence, not for its value',
}

TYPES = ['ii', 'is', 'ip', 'ib', 'uis', 'iis', 'fs']


def val(rng, ch, key=False):
    if ch in 'iuf':
        return rng.randrange(0, 4) if key else rng.randrange(0, 50)
    if ch == 's':
        return rng.choice(['', 'a', 'bb', 'xyz', 'q' * 9])
    if ch == 'b':
        return rng.choice(['', '00', 'ff01', 'abcdef'])
    if ch == 'p':
        return {'A': rng.randrange(0, 9), 'B': rng.choice(['', 'k', 'zz'])}


def row(rng, types, nkey):
    return [val(rng, ch, key=c < nkey) for c, ch in enumerate(types)]


def newcap(c, i0, need):
    if c == 0:
        return need
    m = c
    while m < i0 + need:
        m += m if i0 < 1024 else m // 4
    return m


def gen_case(rng, cid, nops, types=None, first=None):
    types = types or rng.choice(TYPES)
    nnum = 0
    for ch in types:
        if ch in 'iuf':
            nnum += 1
        else:
            break
    prefix = rng.randrange(1, nnum + 1)
    n = 5 if first else rng.choice([0, 1, 3, 5, 5, 6, 8])
    rows = [row(rng, types, nnum) for _ in range(n)]
    ln, cp = n, n
    ops = []
    if first:
        ops.append(first)
        ln, cp = first[2] - first[1], cp - first[1]
    while len(ops) < nops:
        k = rng.choice(['slice', 'slice', 'copyin', 'copyout', 'copyself', 'copyself', 'swap', 'zero', 'less', 'hash', 'append', 'grow',
                        'ensure', 'prefixed', 'sort', 'sort'])
        if k == 'slice':
            i = rng.randrange(0, cp + 1)
            j = rng.randrange(i, cp + 1)
            ops.append(['slice', i, j]); ln, cp = j - i, cp - i
        elif k == 'copyin':
            ops.append(['copyin', [row(rng, types, nnum) for _ in range(rng.randrange(0, 4))]])
        elif k == 'copyout':
            ops.append(['copyout', rng.randrange(0, ln + 3)])
        elif k == 'copyself' and ln >= 1:
            # two sub-views of the view, often overlapping, destination before or after the source
            a, b = rng.randrange(0, ln), rng.randrange(0, ln)
            al, bl = rng.randrange(0, ln - a + 1), rng.randrange(0, ln - b + 1)
            if rng.random() < 0.5:
                al = bl = min(ln - a, ln - b, rng.choice([1, 2, 3, 4, 5, 8]))
            ops.append(['copyself', a, al, b, bl])
        elif k == 'swap' and ln >= 1:
            ops.append(['swap', rng.randrange(0, ln), rng.randrange(0, ln)])
        elif k == 'zero':
            ops.append(['zero'])
        elif k == 'less' and ln >= 1:
            ops.append(['less', rng.randrange(0, ln), rng.randrange(0, ln)])
        elif k == 'hash' and ln >= 1:
            ops.append(['hash', rng.randrange(0, ln)])
        elif k == 'append':
            r = [row(rng, types, nnum) for _ in range(rng.randrange(0, 4))]
            ops.append(['append', r])
            if ln + len(r) > cp:
                cp = newcap(cp, ln, len(r))
            ln += len(r)
        elif k == 'grow':
            g = rng.randrange(0, 4)
            ops.append(['grow', g])
            if ln + g > cp:
                cp = newcap(cp, ln, g)
            ln += g
        elif k == 'ensure':
            e = rng.randrange(0, cp + 4)
            ops.append(['ensure', e])
            if e != ln:
                if e > cp:
                    cp = newcap(cp, ln, e - ln)
                ln = e
        elif k == 'prefixed':
            prefix2 = rng.randrange(1, nnum + 1)
            ops.append(['prefixed', prefix2])
        elif k == 'sort':
            ops.append(['sort'])
    return {'id': cid, 'types': types, 'prefix': prefix, 'rows': rows, 'ops': ops}


def gen_cases(tier):
    rng = random.Random(vlib.seed() * 104729 + 11)
    cases = []
    # systematic: every (off, len) view of a 5-row storage x every single operation kind follows randomly
    for types in TYPES:
        for i in range(0, 6):
            for j in range(i, 6):
                c = gen_case(rng, len(cases) + 1, 4, types=types, first=['slice', i, j])
                cases.append(c)
    n = 700 if tier == 'quick' else 15000
    for _ in range(n):
        cases.append(gen_case(rng, len(cases) + 1, rng.choice([2, 3, 5, 8])))
    for k, c in enumerate(cases):
        c['id'] = k + 1
    return cases


def run(tier, replay=None):
    chk = vlib.Check('C11', tier)
    chk.assumptions = vlib.TRUSTED
    with vlib.WorkCopy('c11', harness=['c11']) as w:
        if replay:
            cases = [json.load(open(os.path.join(replay, 'replay.json')))['payload']['case']]
            cases[0]['id'] = 1
        else:
            cases = gen_cases(tier)
        json.dump(cases, open(w.out('cases.json'), 'w'))
        p = w.gotest('./frame/', 'TestVerifC11$', env={'VERIF_CASES': w.out('cases.json')}, timeout=900)
        out = w.out('c11_records.ndjson')
        if p.returncode != 0 or not os.path.exists(out):
            raise Inconclusive('harness failed:\n' + (p.stdout or '')[-3000:])
        recs = vlib.read_ndjson(out)
        if len(recs) != len(cases):
            raise Inconclusive('%d records for %d cases' % (len(recs), len(cases)))
        v = vlib.judge(chk, w.root + '/tlc', 'mon', 'FrameView', 'FrameView.cfg', 'c11_records.ndjson', out,
                       'c11_verdict.json', nrecs=len(recs))
        chk.cov['traces_validated_against_impl'] = len(recs)
        chk.cov['operations'] = sum(len(r['steps']) for r in recs)
        for c in cases:
            chk.case({k: c[k] for k in ('types', 'prefix', 'rows', 'ops')}, nontrivial=len(c['rows']) > 0 and len(c['ops']) > 1)
        chk.cov['rule'] = ('operation sequences from VERIF_SEED: all (off,len) views of a 5-row storage x 7 column-type sets, then random '
                           'sequences of 2-8 ops over storages of 0-8 rows; distinct by full case; non-trivial = non-empty storage, >1 op')
        chk.sample({'case': cases[0], 'first_step': recs[0]['steps'][:1]})
        chk.sample({'case': cases[-1]})
        byid = {c['id']: c for c in cases}
        rb = {r['id']: r for r in recs}
        for b in v['bad']:
            c = byid[b['id']]
            ident = {'op': b['op'], 'what': b['what'], 'offset_view': b['viewoff'] > 0}
            chk.violation(ident, 'frame op %s (step %s, view offset %s, types %s): %s' % (b['op'], b['step'], b['viewoff'], b['types'], b['what']),
                          {'case': c, 'steps': rb[b['id']]['steps'][:b['step']]})
        good = next((r for r in recs if r['steps'] and r['id'] not in {b['id'] for b in v['bad']} and r['steps'][-1]['parent']), None)
        if good:
            x = json.loads(json.dumps(good))
            x['id'] = 1
            x['steps'][-1]['parent'][0] = list(reversed(x['steps'][-1]['parent'][0])) if len(set(map(json.dumps, x['steps'][-1]['parent'][0]))) > 1 else x['steps'][-1]['parent'][0][:-1] + [12345]
            vlib.write_ndjson(w.out('self.ndjson'), [x])
            v2 = vlib.judge(vlib.Check('C11', tier), w.root + '/tlc', 'self', 'FrameView', 'FrameView.cfg', 'c11_records.ndjson',
                            w.out('self.ndjson'), 'c11_verdict.json', nrecs=1)
            ok = len(v2['bad']) > 0
            chk.cov['binding_selftest'] = {'ok': ok, 'corruption': 'one parent-storage row of an accepted final step altered',
                                           'rejected_by': sorted(set(b['what'] for b in v2['bad']))}
            if not ok:
                raise Inconclusive('binding self-test failed')
        return chk.finish()
