"""C07 — row streams decode to the rows written; corruption is detected, never returned."""
import json
import os
import random
import sys

sys.path.insert(0, '/verif/lib')
import vlib
from vlib import Inconclusive

META = {
    'category': 'fault_enumeration',
    'technique': 'TLA+ Codec.tla (batch-granular stream model: RoundTrip and Detects clauses) judges recorded encode/decode round trips over swept batch and destination sizes and recorded outcomes of exhaustive single-bit flips, all truncation points and random bursts applied to the real encoded bytes; column types include maps and arrays of structs (gob decodes them in place), destinations are reused across reads or kept and re-verified when the stream has ended',
    'level_text': 'fault enumeration judged by a TLA+ model: streams over column type sets (ints, floats, strings, byte slices, gob-encoded structs), batch-size sequences including empty batches and destination-size sequences (buffered and direct decode paths) are written with the real Encoder and read back; for small streams EVERY single-bit flip and EVERY truncation point is applied to the real bytes (plus random multi-byte bursts on larger ones), the offset is mapped to the batch it lies in from the recorded batch boundaries, and TLC checks: error (no clean EOF, no panic), delivered rows are a correct prefix that stops before the damaged batch',
    'level_note': 'coverage-guided fuzzing named in the quantifier is replaced by exhaustive single-fault damage of small streams; memory-safety of gob decoding into frame memory is outside this technique; map- and array-typed columns are in the universe (gob decodes them in place), custom frame codecs are not yet',
}


def gen(tier):
    rng = random.Random(vlib.seed() * 14009 + 3)
    cases = []
    typesets = ['i', 'is', 'ip', 'ib', 'fs', 'isp', 'im', 'ia', 'sma']
    # damaged streams: no map-typed columns -- encoding/gob allocates a map of the (corrupted) transmitted size before it
    # reads the entries (reflect.MakeMapWithSize), and a huge count ends the process with a fatal out-of-memory error that
    # no caller can recover; that is the standard library's, not bigslice's (DESIGN.md 0A.6)
    dtypesets = [t for t in typesets if 'm' not in t]
    n = 400 if tier == 'quick' else 8000
    for _ in range(n):
        nb = rng.choice([0, 1, 2, 3, 4])
        cases.append({'id': len(cases) + 1, 'types': rng.choice(typesets), 'batches': [rng.choice([0, 1, 2, 5, 9]) for _ in range(nb)],
                      'dests': [rng.choice([1, 2, 3, 7, 128]) for _ in range(rng.choice([1, 2, 3]))], 'damage': False, 'bursts': 0, 'seed': 0,
                      'reuse': rng.random() < 0.5})
    nd = 10 if tier == 'quick' else 150
    for k in range(nd):
        nb = rng.choice([1, 2, 3])
        cases.append({'id': len(cases) + 1, 'types': dtypesets[k % len(dtypesets)], 'batches': [rng.choice([0, 1, 2, 3]) for _ in range(nb)],
                      'dests': [rng.choice([1, 2, 7])], 'damage': True, 'bursts': 0, 'seed': 0})
    for k in range(20 if tier == 'quick' else 300):
        cases.append({'id': len(cases) + 1, 'types': rng.choice(dtypesets), 'batches': [rng.choice([50, 128, 200]) for _ in range(rng.choice([1, 2, 3]))],
                      'dests': [rng.choice([1, 64, 128, 300])], 'damage': False, 'bursts': 40, 'seed': rng.randrange(1 << 30), 'reuse': rng.random() < 0.3})
    return cases


def run(tier, replay=None):
    chk = vlib.Check('C07', tier, level='fault_enumeration')
    chk.assumptions = vlib.TRUSTED
    with vlib.WorkCopy('c07', harness=['c07']) as w:
        if replay:
            cases = [json.load(open(os.path.join(replay, 'replay.json')))['payload']['case']]
            cases[0]['id'] = 1
        else:
            cases = gen(tier)
        json.dump(cases, open(w.out('cases.json'), 'w'))
        p = w.gotest('./sliceio/', 'TestVerifC07$', env={'VERIF_CASES': w.out('cases.json')}, timeout=1800)
        out = w.out('c07_records.ndjson')
        if p.returncode != 0 or not os.path.exists(out):
            raise Inconclusive('harness failed:\n' + (p.stdout or '')[-3000:])
        recs = vlib.read_ndjson(out)
        if len(recs) != len(cases):
            raise Inconclusive('%d records for %d cases' % (len(recs), len(cases)))
        v = vlib.judge(chk, w.root + '/tlc', 'mon', 'Codec', 'Codec.cfg', 'c07_records.ndjson', out, 'c07_verdict.json', nrecs=len(recs), timeout=2400)
        byid = {c['id']: c for c in cases}
        nd = sum(len(r.get('damage', [])) for r in recs)
        chk.cov['traces_validated_against_impl'] = len(recs)
        chk.cov['damage_experiments'] = nd
        chk.cov['bit_flips'] = sum(1 for r in recs for d in r.get('damage', []) if d[0] == 'flip')
        chk.cov['truncations'] = sum(1 for r in recs for d in r.get('damage', []) if d[0] == 'trunc')
        for c in cases:
            chk.case({k: c[k] for k in c if k != 'id'}, nontrivial=sum(c['batches']) > 0)
        chk.cov['rule'] = 'round trips: 0-4 batches of 0-9 rows x destination sizes over {1,2,3,7,128} x 6 column type sets; exhaustive damage: every bit flip and truncation of streams of 1-3 batches of 0-3 rows; bursts: 40 random 1-4 byte bursts on streams of 50-600 rows'
        chk.sample({'case': cases[0], 'round_trip': recs[0].get('rt')})
        dm = next((r for r in recs if r.get('damage')), None)
        if dm:
            chk.sample({'damage_of': byid[dm['id']], 'bounds': dm['bounds'], 'first_experiments': dm['damage'][:6]})
        groups = {}
        for b in v['bad']:
            c = byid[b['id']]
            d = b['d']
            kind = d[0] if d else ''
            # position class of the damage inside its batch: which encoded field it hit is identified by the offset
            # relative to the start of the damaged batch
            from_end, bit, last = '', '', ''
            if d and kind in ('flip', 'trunc'):
                r = next(x for x in recs if x['id'] == b['id'])
                if d[3] < len(r['bounds']):
                    from_end = r['bounds'][d[3]] - d[1]
                    last = d[3] == len(r['bounds']) - 1
                bit = d[2] if kind == 'flip' else ''
            # where in its batch the damage lies (distance from the end of the batch: the CRC trailer is the last
            # gob message of a batch), which bit, and whether it is the last batch of the stream
            ident = {'what': b['what'], 'kind': kind, 'from_end_of_batch': from_end, 'bit': bit, 'last_batch': last}
            chk.violation(ident, '%s: %s damage %s in stream %s' % (b['what'], kind, d, json.dumps(c)), {'case': c, 'damage': d})
        return chk.finish()
