"""C20 — user metrics are merged additively and survive transport unchanged."""
import json
import os
import random
import sys

sys.path.insert(0, '/verif/lib')
import vlib
import progs
from vlib import Inconclusive

META = {
    'technique': 'TLA+ Metrics.tla (scope/counter algebra) validates recorded operation sequences on real metrics.Scope values step by step; MetricsCAS.tla model-checks the lock-free instance installation; end-to-end counter totals (incl. reused, discarded and recomputed results) judged by ProgMon.tla on both executors',
    'level_text': 'model_checking: (1) the CAS protocol of Scope.list/instance is checked exhaustively for 3 threads x 2 increments (one instance, no lost increment); (2) sequences of Incr / concurrent Incr / Merge / Reset(u) / Reset(nil) / gob round trip over 3 scopes x 3 counters are applied to real scopes and every intermediate value of every scope is compared with the Metrics.tla model by TLC; (3) programs with counting user functions are run on both executors (with result reuse, discard and recomputation) and Counter.Value(result.Scope()) is compared with the sum of increments the Dataflow value implies',
    'level_note': 'after Reset(s,u) the harness does not write to s or u again before re-resetting them (the property does not fix whether they share instances); only Counter metrics exist in this version',
}


def gen_ops(rng, cid, nops):
    ns, nc = 3, 3
    tainted = set()   # scopes that may share instances with another scope
    ops = []
    while len(ops) < nops:
        k = rng.choice(['incr', 'incr', 'parincr', 'merge', 'merge', 'reset', 'resetnil', 'gob', 'fresh'])
        s = rng.randrange(ns)
        if k in ('incr', 'parincr'):
            if s in tainted:
                continue
            if k == 'incr':
                ops.append(['incr', s, rng.randrange(nc), rng.randrange(1, 6)])
            else:
                ops.append(['parincr', s, rng.randrange(nc), rng.choice([10, 100]), rng.choice([2, 4, 8])])
        elif k == 'merge':
            u = rng.randrange(ns)
            if u == s or s in tainted:
                continue
            ops.append(['merge', s, u])
        elif k == 'reset':
            u = rng.randrange(ns)
            if u == s:
                continue
            ops.append(['reset', s, u])
            tainted.add(s); tainted.add(u)
        elif k == 'resetnil':
            ops.append(['resetnil', s])
            # s no longer shares anything; its former partners may still share among themselves
            tainted.discard(s)
        elif k == 'gob':
            u = rng.randrange(ns)
            ops.append(['gob', s, u])
            tainted.discard(s)
        elif k == 'fresh':
            ops.append(['fresh', s])
            tainted.discard(s)
    return {'id': cid, 'nscope': ns, 'ncount': nc, 'ops': ops}


def gen_e2e(tier):
    rng = random.Random(vlib.seed() * 5003 + 1)
    scs = []
    n = 60 if tier == 'quick' else 800
    for _ in range(n):
        ex = 'bigmachine' if rng.random() < 0.5 else 'local'
        g = progs.Gen(rng)
        i = g.source()
        for _ in range(rng.choice([1, 2, 3])):
            op = rng.choice(['map', 'filter', 'map', 'reshuffle', 'reduce', 'flatmap'])
            if op == 'map':
                i = g.add(progs.N('map', **{'in': [i]}, f=rng.choice(['inc', 'kmod', 'swap'])), g.kind[i], g.nsh[i])
            elif op == 'filter':
                i = g.add(progs.N('filter', **{'in': [i]}, f=rng.choice(['even', 'knz'])), g.kind[i], g.nsh[i])
            elif op == 'flatmap':
                i = g.add(progs.N('flatmap', **{'in': [i]}), g.kind[i], g.nsh[i])
            else:
                i = g.add(progs.N(op, **{'in': [i]}, f='sum'), 'bag', g.nsh[i])
        p0 = {'nodes': g.nodes, 'out': i, 'taps': []}
        steps = [progs.step_run('r0', p0)]
        kinds = {'r0': (g.kind[i], g.nsh[i])}
        names = ['r0']
        for h in range(rng.choice([0, 1, 2, 3])):
            c = rng.random()
            if c < 0.3:
                steps.append(progs.step_discard(rng.choice(names)))
            else:
                a = rng.choice(names)
                g2 = progs.Gen(rng, nargs=1, argkinds=[kinds[a]])
                j = g2.add(progs.N('arg', arg=0), kinds[a][0], kinds[a][1])
                for _ in range(rng.choice([1, 2])):
                    op = rng.choice(['map', 'filter', 'reshuffle'])
                    if op == 'reshuffle':
                        j = g2.add(progs.N('reshuffle', **{'in': [j]}), 'bag', g2.nsh[j])
                    else:
                        j = g2.add(progs.N(op, **{'in': [j]}, f='inc' if op == 'map' else 'even'), g2.kind[j], g2.nsh[j])
                nm = 'r%d' % len(names)
                steps.append(progs.step_run(nm, {'nodes': g2.nodes, 'out': j, 'taps': []}, [a]))
                kinds[nm] = (g2.kind[j], g2.nsh[j])
                names.append(nm)
        scs.append(progs.scenario(len(scs) + 1, steps, exec_=ex, parallelism=rng.choice([0, 2]),
                                  machprocs=rng.choice([1, 2]) if ex == 'bigmachine' else 0))
    # a reply of Worker.Run is lost on the network while the machine stays up: the call is retried, the worker
    # answers for the task it already ran, and the result's metrics must still be the task's metrics
    for _ in range(8 if tier == 'quick' else 80):
        g0 = progs.Gen(rng)
        i = g0.source()
        for k in range(rng.choice([1, 2, 3])):
            op = rng.choice(['map', 'filter'])
            i = g0.add(progs.N(op, **{'in': [i]}, f=rng.choice(['inc', 'kmod', 'swap']) if op == 'map' else rng.choice(['even', 'knz'])), g0.kind[i], g0.nsh[i])
        p0 = {'nodes': g0.nodes, 'out': i, 'taps': []}
        plans = [{'method': 'Worker.Run', 'ordinal': rng.choice([1, 1, 2, 3]), 'phase': 'drop', 'bytes': 0}]
        steps = [{'do': 'kills', 'as': '', 'res': '', 'args': [], 'kills': plans}, progs.step_run('r0', p0), progs.step_scan('r0')]
        scs.append(progs.scenario(len(scs) + 1, steps, exec_='bigmachine', interpose=True, parallelism=rng.choice([1, 2]), machprocs=1, timeout_s=90))
    return scs


def run(tier, replay=None):
    chk = vlib.Check('C20', tier)
    chk.assumptions = vlib.TRUSTED
    with vlib.WorkCopy('c20', harness=['c20', 'prog']) as w:
        wdir = w.root + '/tlc'
        r = vlib.tlc(wdir + '/cas', 'MetricsCAS', 'MetricsCAS.cfg', workers=8, timeout=600)
        vlib.tlc_must_parse(r, 'MetricsCAS')
        chk.add_tlc('exhaustive MetricsCAS', r)
        if r.violated or not r.ok:
            raise Inconclusive('MetricsCAS design check failed: %s' % (r.violated or r.error))
        rng = random.Random(vlib.seed() * 6007 + 2)
        if replay:
            rp = json.load(open(os.path.join(replay, 'replay.json')))['payload']
            cases = [rp['case']] if 'case' in rp else []
            scs = [rp['scenario']] if 'scenario' in rp else []
            for k, c in enumerate(cases):
                c['id'] = k + 1
            for k, c in enumerate(scs):
                c['id'] = k + 1
        else:
            cases = [gen_ops(rng, k + 1, rng.choice([3, 5, 8, 12])) for k in range(600 if tier == 'quick' else 20000)]
            scs = gen_e2e(tier)
        if cases:
            json.dump(cases, open(w.out('cases.json'), 'w'))
            p = w.gotest('./metrics/', 'TestVerifC20$', env={'VERIF_CASES': w.out('cases.json')}, timeout=900)
            out = w.out('c20_records.ndjson')
            if p.returncode != 0 or not os.path.exists(out):
                raise Inconclusive('harness failed:\n' + (p.stdout or '')[-3000:])
            recs = vlib.read_ndjson(out)
            v = vlib.judge(chk, wdir, 'mon', 'Metrics', 'Metrics.cfg', 'c20_records.ndjson', out, 'c20_verdict.json', nrecs=len(recs))
            byid = {c['id']: c for c in cases}
            rb = {r_['id']: r_ for r_ in recs}
            for b in v['bad']:
                chk.violation({'what': b['what'], 'op': b['op']}, 'scope op %s at step %s: %s (ops %s)' % (b['op'], b['step'], b['what'], json.dumps(byid[b['id']]['ops'])[:300]),
                              {'case': byid[b['id']], 'steps': rb[b['id']]['steps'][:b['step']]})
            chk.cov['traces_validated_against_impl'] = len(recs)
            chk.cov['scope_operations'] = sum(len(c['ops']) for c in cases)
            for c in cases:
                chk.case(c['ops'], nontrivial=len(c['ops']) >= 3)
            chk.sample({'case': cases[0], 'steps': recs[0]['steps'][:3]})
            good = next((r_ for r_ in recs if r_['id'] not in {b['id'] for b in v['bad']} and r_['steps']), None)
            if good and not replay:
                x = json.loads(json.dumps(good))
                x['id'] = 1
                x['steps'][-1]['vals'][0][0] += 1
                vlib.write_ndjson(w.out('self.ndjson'), [x])
                v2 = vlib.judge(vlib.Check('C20', tier), wdir, 'self', 'Metrics', 'Metrics.cfg', 'c20_records.ndjson', w.out('self.ndjson'), 'c20_verdict.json', nrecs=1)
                ok = len(v2['bad']) > 0
                chk.cov['binding_selftest'] = {'ok': ok, 'corruption': 'one counter value of an accepted final step incremented'}
                if not ok:
                    raise Inconclusive('binding self-test failed')
        if scs:
            recs2, path2 = progs.execute(w, scs, workers=6)
            v3 = progs.judge(chk, w, path2, len(recs2))
            byid = {s['id']: s for s in scs}
            rb = {r_['id']: r_ for r_ in recs2}
            for b in v3['bad']:
                chk.violation({'what': b['what'], 'exec': b['exec'], 'layer': 'e2e'}, '%s (%s, scenario %s seq %s): %s' % (b['what'], b['exec'], b['id'], b['seq'], str(b['detail'])[:150]),
                              {'scenario': byid[b['id']], 'record': rb[b['id']]})
            chk.cov['traces_validated_against_impl'] = chk.cov.get('traces_validated_against_impl', 0) + len(recs2)
            chk.sample({'scenario': scs[0]})
            for s in scs:
                chk.case({'steps': s['steps'], 'exec': s['exec']}, nontrivial=True)
        chk.cov['rule'] = 'scope op sequences of 3-12 ops over 3 scopes x 3 counters from VERIF_SEED; e2e scenarios = counting programs with 0-3 reuse/discard steps on both executors; distinct by full case'
        return chk.finish()
