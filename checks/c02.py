"""C02 — machine loss yields the correct rows or an error, never wrong rows or a hang."""
import copy
import json
import os
import random
import sys

sys.path.insert(0, '/verif/lib')
sys.path.insert(0, '/verif/checks')
import vlib
import execx
import progs
from vlib import Inconclusive

META = {
    'technique': 'TLA+ session monitor (ProgMon.tla over Dataflow.tla, loss clauses NeverBlocksUnderMachineLoss / CompletesWhenLossesStop / ScanCompletesWhenLossesStop / ScanRowsAsFailureFreeRun) judges histories recorded from real Bigmachine(testsystem) sessions in which an RPC interposer on the test system\'s shared HTTP client kills the machine serving a chosen call (Worker.Compile/Run/Stat/Read, FuncLocations, Supervisor boot calls, keepalives) before it, after it, after it with the reply dropped, or in the middle of a streamed reply; design models ScanResume.tla (resume of a scan in a recomputed output) and Combine.tla (attempts of a combining task) checked exhaustively; executor level: design model Exec.tla (task lifecycle of the bigmachine executor under machine loss: grant, call with captured dependency locations, worker run, lost reply, location, OK+assignment, machine monitor in two steps, Discard) checked exhaustively with liveness, and real sessions with a machine killed at the n-th executor event judged by ExecMon.tla and validated against Exec.tla by ExecTrace.tla',
    'level_text': 'recorded behaviour judged by a TLA+ specification: programs of the fault suite (map-only, reduce, cogroup, fold, multi-stage shuffles, reused results) are first run failure-free under a counting RPC interposer, which yields the RPC boundaries of every step (run, scan, run-with-result, rescan); kill histories then kill the serving machine at sampled (quick) or all (thorough, small programs) boundaries x phases {before, after, reply dropped, mid-stream}, singly and in pairs, including during the final scan; torn-stream families (small batches, the reply cut after a swept number of bytes) for scans and for the shuffle reads of running aggregation tasks, and repeated-loss histories (six rounds of losing an output and one recomputation attempt); every run and scan must finish before its deadline, succeed (kills are finite and replacement machines start), and deliver rows the Dataflow semantics allows for a failure-free run',
    'level_note': 'machines are in-process testsystem machines killed by closing their servers; the killed machine is the one serving the chosen call (the caller of a worker-to-worker read cannot be singled out); machine-combiner sessions are excluded as the property states; ordinals are counted per method from the start of a step, so timing-dependent calls (keepalive, Stat polling) hit approximately the chosen point',
}

PHASES = ['before', 'after', 'afterlost']
IGNORED = set()


def suite(rng, tier):
    """(name, first program, second program using r0 or None)."""
    out = []
    n = 14 if tier == 'quick' else 24
    tries = 0
    while len(out) < n and tries < 1000:
        tries += 1
        g0 = progs.Gen(rng, mid=rng.random() < 0.3)
        p0, k0 = g0.program(rng.choice([1, 2, 3, 4]), taps='out')
        if k0[0] == 'weak':
            continue
        ops = {x['op'] for x in p0['nodes']}
        if ops & {'scanreader', 'head'}:
            continue
        p0['taps'] = []
        g = progs.Gen(rng, nargs=1, argkinds=[k0])
        i = g.add(progs.N('arg', arg=0), k0[0], k0[1])
        for _ in range(rng.choice([1, 2, 3])):
            i = g.grow(i, last=False)
        if g.kind[i] == 'weak' or {x['op'] for x in g.nodes} & {'scanreader', 'head'}:
            continue
        p1 = {'nodes': g.nodes, 'out': i, 'taps': []}
        out.append((p0, p1))
    return out


PIPELINED = {'map', 'filter', 'flatmap', 'writerfunc', 'prefixed', 'head'}


def output_order(sc, res):
    """Whether the bytes of a result's output are fixed by the program ('reproducible') or depend on the order in
    which a shuffle consumer happens to read its producers ('read-order'): the nearest shuffle at or above the
    output node is a Reshuffle/Repartition/Reshard, which pass rows through in arrival order (exec.DoShuffleReaders
    randomises that order), rather than a Reduce/Fold/Cogroup, which emit sorted keys."""
    def steps(ss):
        for st in ss:
            yield st
            for g in st.get('steps') or []:
                yield from steps(g)
    for _ in range(8):   # follow Result arguments into the programs that made them
        st0 = next((st for st in steps(sc['steps']) if st.get('do') == 'run' and st.get('as') == res), None)
        if not st0:
            return ''
        prog = st0['prog']
        j = prog['out']
        while True:
            nd = prog['nodes'][j]
            if nd['op'] in ('reshuffle', 'repartition', 'reshard'):
                return 'read-order'
            if nd['op'] in PIPELINED and nd['in']:
                j = nd['in'][0]
                continue
            break
        if nd['op'] != 'arg':
            return 'reproducible'
        res = st0['args'][nd.get('arg', 0)]
    return 'reproducible'


def kills_step(plans):
    return {'do': 'kills', 'as': '', 'res': '', 'args': [], 'kills': plans}


def history(p0, p1, plans_by_window):
    """Windows: 0 run r0, 1 scan r0, 2 run r1(r0), 3 scan r1, 4 rescan r0."""
    steps = []
    acts = [progs.step_run('r0', p0), progs.step_scan('r0'), progs.step_run('r1', p1, ['r0']), progs.step_scan('r1'), progs.step_scan('r0')]
    for w, a in enumerate(acts):
        steps.append(kills_step(plans_by_window.get(w, [])))
        steps.append(a)
    steps.append(kills_step([]))
    return steps


def mk(sid, p0, p1, plans, cfg, loss):
    return progs.scenario(sid, history(p0, p1, plans), exec_='bigmachine', interpose=True, loss=loss, timeout_s=60, **cfg)


def rounds_history(p0, p1, rounds):
    """run r0, then per round: arm kills, then rescan r0 (or run r1 over r0 and scan it)."""
    steps = [kills_step([]), progs.step_run('r0', p0)]
    for k, (plans, use) in enumerate(rounds):
        steps.append(kills_step(plans))
        if use == 'scan':
            steps.append(progs.step_scan('r0'))
        else:
            steps.append(progs.step_run('q%d' % k, p1, ['r0']))
            steps.append(progs.step_scan('q%d' % k))
    steps.append(kills_step([]))
    steps.append(progs.step_scan('r0'))
    return steps


def category(m):
    if m in ('Worker.Run', 'Worker.Read', 'Worker.Compile', 'Worker.Stat'):
        return m
    if m == 'Supervisor.Keepalive':
        return 'keepalive'
    if m.startswith('Supervisor.') or m == 'Worker.FuncLocations':
        return 'boot'
    return 'other'


def windows_of(rec):
    """rpc counts per window from the kills events of a record."""
    ks = [e for e in rec['events'] if e.get('do') == 'kills' and not e.get('skipped')]
    # event k reports the window that ended at it: window index k-1
    return [e.get('rpc_before', {}) for e in ks[1:]]


def run(tier, replay=None):
    chk = vlib.Check('C02', tier)
    chk.assumptions = vlib.TRUSTED
    rng = random.Random(vlib.seed() * 2011 + 2)
    with vlib.WorkCopy('c02', harness=['prog', 'c12x']) as w:
        if replay:
            payload0 = json.load(open(os.path.join(replay, 'replay.json')))['payload']
            if 'xcase' in payload0:
                execx.run(chk, w, tier, replay_case=payload0['xcase'])
                return chk.finish()
        # design level (ScanResume.tla): resuming a scan in a recomputed output is exact and live when the output is
        # reproducible; the other configuration documents known finding KF-C02-scan-resume-recomputed (TLC is
        # expected to find the duplicated-and-missing-rows history there). Neither decides a verdict.
        r1 = vlib.tlc(w.root + '/tlc/scanresume', 'ScanResume', 'ScanResume_repro.cfg', workers=2, timeout=300)
        vlib.tlc_must_parse(r1, 'ScanResume_repro')
        chk.add_tlc('exhaustive ScanResume_repro.cfg', r1)
        if r1.violated or not r1.ok:
            raise Inconclusive('ScanResume design check failed: %s' % (r1.violated or r1.error))
        r2 = vlib.tlc(w.root + '/tlc/scanresume2', 'ScanResume', 'ScanResume_order.cfg', workers=2, timeout=300)
        chk.cov['design_counterexample_for_known_finding'] = bool(r2.violated)
        # design level (Combine.tla): a failed attempt of a combining task that discards its buffers counts every
        # row once; the _asis configuration documents the repaired defect FX-C02-combiner-partial-attempt
        r3 = vlib.tlc(w.root + '/tlc/combine', 'Combine', 'Combine_fixed.cfg', workers=2, timeout=300)
        vlib.tlc_must_parse(r3, 'Combine_fixed')
        chk.add_tlc('exhaustive Combine_fixed.cfg', r3)
        if r3.violated or not r3.ok:
            raise Inconclusive('Combine design check failed: %s' % (r3.violated or r3.error))
        if replay:
            scs = [json.load(open(os.path.join(replay, 'replay.json')))['payload']['scenario']]
            scs[0]['id'] = 1
            recs, path = progs.execute(w, scs, workers=1, tag='c02', env={'VERIF_FASTBOOT': 1})
            base_n = 0
        else:
            progs_ = suite(rng, tier)
            # (parallelism, procs per machine): one machine, or several
            cfgs = [dict(zip(('parallelism', 'machprocs'), rng.choice([(1, 1), (2, 2), (2, 1), (3, 1), (4, 2), (4, 1)]))) for _ in progs_]
            cfgs[0] = {'parallelism': 1, 'machprocs': 1}
            cfgs[1] = {'parallelism': 2, 'machprocs': 2}
            base = [mk(i + 1, p0, p1, {}, cfgs[i], False) for i, (p0, p1) in enumerate(progs_)]
            brecs, bpath = progs.execute(w, base, workers=8, tag='c02base', env={'VERIF_FASTBOOT': 1})
            scs = list(base)
            npoints = 0
            allpoints = []
            for i, (p0, p1) in enumerate(progs_):
                wins = windows_of(brecs[i])
                if len(wins) < 5 or any(e.get('err') for e in brecs[i]['events'] if e.get('do') in ('run', 'scan')):
                    continue
                pts = []
                for wi, counts in enumerate(wins[:5]):
                    for m, c in sorted(counts.items()):
                        for o in range(1, c + 1):
                            for ph in PHASES + (['mid'] if m == 'Worker.Read' else []) + (['afterdelay'] if m == 'Worker.Run' else []):
                                pts.append((wi, m, o, ph))
                npoints += len(pts)
                allpoints.append((i, pts))
            chk.cov['rpc_boundaries_x_phases'] = npoints
            for i, pts in allpoints:
                p0, p1 = progs_[i]
                small = len(pts) <= 160
                if tier != 'quick' and small:
                    pick = pts
                else:
                    # the same number of points from every kind of call
                    bycat = {}
                    for pt in pts:
                        bycat.setdefault(category(pt[1]), []).append(pt)
                    pick = []
                    for cat in sorted(bycat):
                        pick += rng.sample(bycat[cat], min(len(bycat[cat]), 1 if tier == 'quick' else 10))
                for (wi, m, o, ph) in pick:
                    pl = {'method': m, 'ordinal': o, 'phase': ph, 'bytes': rng.choice([1, 7, 40, 200]) if ph == 'mid' else 0}
                    scs.append(mk(len(scs) + 1, p0, p1, {wi: [pl]}, cfgs[i], True))
                # directed: a reply that arrives only after the loss of its machine has been noticed
                runs = [pt for pt in pts if pt[1] == 'Worker.Run' and pt[3] == 'afterdelay']
                for (wi, m, o, ph) in rng.sample(runs, min(len(runs), 2 if tier == 'quick' else 8)):
                    scs.append(mk(len(scs) + 1, p0, p1, {wi: [{'method': m, 'ordinal': o, 'phase': ph, 'bytes': 0}]}, cfgs[i], True))
                # pairs of kills
                for _ in range(2 if tier == 'quick' else 12):
                    a, b = rng.choice(pts), rng.choice(pts)
                    plans = {}
                    for (wi, m, o, ph) in (a, b):
                        plans.setdefault(wi, []).append({'method': m, 'ordinal': o, 'phase': ph, 'bytes': rng.choice([1, 7, 40]) if ph == 'mid' else 0})
                    scs.append(mk(len(scs) + 1, p0, p1, plans, cfgs[i], True))
            # repeated losses over a long history: every round loses the output of r0 and one recomputation attempt
            nlong = 0
            for i, _ in allpoints[:(3 if tier == 'quick' else 12)]:
                p0, p1 = progs_[i]
                for variant in range(2):
                    rounds = []
                    for k in range(6):
                        if variant == 0:
                            plans = [{'method': 'Worker.Read', 'ordinal': 1, 'phase': 'before', 'bytes': 0},
                                     {'method': 'Worker.Run', 'ordinal': 1, 'phase': 'afterlost', 'bytes': 0}]
                            use = 'scan'
                        else:
                            plans = [{'method': 'Worker.Read', 'ordinal': rng.choice([1, 1, 2]), 'phase': rng.choice(['before', 'mid', 'after']), 'bytes': 3},
                                     {'method': 'Worker.Run', 'ordinal': rng.choice([1, 1, 2, 3]), 'phase': rng.choice(['before', 'afterlost', 'after']), 'bytes': 0}]
                            use = rng.choice(['scan', 'run'])
                        rounds.append((plans, use))
                    scs.append(progs.scenario(len(scs) + 1, rounds_history(p0, p1, rounds), exec_='bigmachine', interpose=True, loss=True, timeout_s=60, **cfgs[i]))
                    nlong += 1
            chk.cov['repeated_loss_histories'] = nlong
            # torn streams: the machine serving a scan dies after b bytes of the reply, for many b, with small
            # batches (VERIF_CHUNK=4) so that some b fall on batch boundaries; run as a batch of its own
            tear = []
            tprogs = []
            while len(tprogs) < (8 if tier == 'quick' else 16):
                g = progs.Gen(rng, mid=True)
                j = g.source()
                if g.nodes[j]['op'] == 'scanreader':
                    continue
                if rng.random() < 0.5:
                    j = g.grow(j, last=False)
                    if g.kind[j] == 'weak' or g.nodes[j]['op'] == 'head':
                        continue
                fin = rng.choice(['fold', 'fold', 'fold', 'reduce', 'cogroup', 'reshuffle', 'map'])
                j = g.add(progs.N(fin, **{'in': [j]}, f={'reduce': 'sum', 'map': 'inc'}.get(fin, '')), 'bag', g.nsh[j])
                tprogs.append({'nodes': g.nodes, 'out': j, 'taps': []})
            # directed: the history of known finding KF-C02-scan-resume-recomputed (a pass-through shuffle consumer)
            rr = random.Random(17)
            kf = {'nodes': [progs.N('const', nshard=3, rows=progs.rows(rr, 90, 12)), progs.N('reshuffle', **{'in': [0]})], 'out': 1, 'taps': []}
            tprogs.insert(0, kf)
            # directed: the history of the repaired Fold defect (FX-C02-fold-order)
            tprogs.insert(1, {'nodes': [progs.N('const', nshard=1, rows=[[k, rr.randrange(9)] for k in range(12) for _ in range(2)]),
                                        progs.N('fold', **{'in': [0]})], 'out': 1, 'taps': []})
            for i, p0 in enumerate(tprogs):
                offs = rng.sample(range(1, 400), (16 if i < 2 else 5) if tier == 'quick' else 120)
                for b in offs:
                    plans = [{'method': 'Worker.Read', 'ordinal': rng.choice([1, 1, 2]), 'phase': 'mid', 'bytes': b}]
                    steps = [kills_step([]), progs.step_run('r0', p0), kills_step(plans), progs.step_scan('r0'), kills_step([]), progs.step_scan('r0')]
                    tear.append(progs.scenario(100000 + len(tear) + 1, steps, exec_='bigmachine', interpose=True, loss=True, timeout_s=60, **rng.choice(cfgs)))
            # torn shuffle reads: the machine serving a task's dependency dies after b bytes of the reply, when the
            # consuming task (an aggregation over a shuffled input) has already processed part of its input
            ntorn_scan = len(tear)
            rr2 = random.Random(23)
            rows48 = [[k, 1] for k in range(24) for _ in range(2)]
            rr2.shuffle(rows48)
            sprogs = [{'nodes': [progs.N('const', nshard=2, rows=rows48), progs.N('reshuffle', **{'in': [0]}), progs.N('reduce', **{'in': [1]}, f='sum')], 'out': 2, 'taps': []}]
            while len(sprogs) < (5 if tier == 'quick' else 14):
                g = progs.Gen(rng, mid=True)
                j = g.source()
                if g.nodes[j]['op'] == 'scanreader':
                    continue
                j = g.add(progs.N(rng.choice(['reshuffle', 'repartition', 'reduce', 'cogroup']), **{'in': [j]}, f='sum'), 'bag', g.nsh[j])
                fin = rng.choice(['reduce', 'reduce', 'fold', 'cogroup'])
                j = g.add(progs.N(fin, **{'in': [j]}, f=rng.choice(['sum', 'max']) if fin == 'reduce' else ''), 'bag', g.nsh[j])
                sprogs.append({'nodes': g.nodes, 'out': j, 'taps': []})
            # a merge of sorted shuffle streams that are longer than one read batch of the merging reader (128 rows):
            # the tear comes after the first batch of a stream has been merged
            rows600 = [[k, 1] for k in range(600) for _ in range(2)]
            rr2.shuffle(rows600)
            longp = {'nodes': [progs.N('const', nshard=2, rows=rows600), progs.N('reduce', **{'in': [0]}, f='sum')], 'out': 1, 'taps': []}
            # (a stream of this program is about 300 rows, 3 kB; its first batch of 128 rows ends near 1.3 kB)
            for b in rng.sample(range(1400, 2900), 16 if tier == 'quick' else 150):
                plans = [{'method': 'Worker.Read', 'ordinal': rng.choice([1, 2, 3, 4]), 'phase': 'mid', 'bytes': b}]
                steps = [kills_step(plans), progs.step_run('r0', longp), kills_step([]), progs.step_scan('r0')]
                tear.append(progs.scenario(100000 + len(tear) + 1, steps, exec_='bigmachine', interpose=True, loss=True, timeout_s=60, parallelism=3, machprocs=1))
            for i, p0 in enumerate(sprogs):
                for b in rng.sample(range(40, 420), (16 if i == 0 else 5) if tier == 'quick' else 100):
                    plans = [{'method': 'Worker.Read', 'ordinal': rng.choice(range(1, 13)), 'phase': 'mid', 'bytes': b}]
                    steps = [kills_step(plans), progs.step_run('r0', p0), kills_step([]), progs.step_scan('r0')]
                    cfg = {'parallelism': rng.choice([2, 3]), 'machprocs': 1}
                    tear.append(progs.scenario(100000 + len(tear) + 1, steps, exec_='bigmachine', interpose=True, loss=True, timeout_s=60, **cfg))
            chk.cov['torn_scan_histories'] = ntorn_scan
            chk.cov['torn_shuffle_read_histories'] = len(tear) - ntorn_scan
            chk.cov['torn_stream_histories'] = len(tear)
            base_n = len(base)
            recs2, path2 = progs.execute(w, scs[base_n:], workers=10 if tier == 'quick' else 24, tag='c02', timeout=6000, env={'VERIF_FASTBOOT': 1})
            recs3, path3 = progs.execute(w, tear, workers=10 if tier == 'quick' else 24, tag='c02tear', timeout=6000, env={'VERIF_FASTBOOT': 1, 'VERIF_CHUNK': 4})
            scs = scs + tear
            recs = brecs + recs2 + recs3
            path = w.out('c02all_records.ndjson')
            vlib.write_ndjson(path, recs)
        v = progs.judge(chk, w, path, len(recs))
        fired = sum(1 for r in recs for k in r.get('killlog', []) if k.get('killed'))
        methods = sorted({k['method'] + '/' + k['phase'] for r in recs for k in r.get('killlog', []) if k.get('killed')})
        chk.cov['traces_validated_against_impl'] = len(recs)
        chk.cov['baseline_histories'] = base_n
        chk.cov['kill_histories'] = len(recs) - base_n
        chk.cov['machines_killed'] = fired
        chk.cov['calls_to_reused_address_of_killed_machine'] = sum(r.get('addr_reused_calls', 0) for r in recs)
        chk.cov['kill_points_hit'] = methods
        chk.cov['events'] = sum(len(r['events']) for r in recs)
        for s_ in scs:
            chk.case({'steps': s_['steps'], 'cfg': [s_['parallelism'], s_['machprocs']]}, nontrivial=s_['loss'])
        chk.sample({'scenario': scs[-1]})
        chk.sample({'killlog': recs[-1].get('killlog'), 'events': [{k: e[k] for k in e if k not in ('prog', 'taps', 'rows')} for e in recs[-1]['events'][:12]]})
        byid = {s_['id']: s_ for s_ in scs}
        rb = {r['id']: r for r in recs}
        for b in v['bad']:
            sc = byid[b['id']]
            rec = rb[b['id']]
            ev = next((e for e in rec['events'] if e.get('seq') == b['seq']), {})
            # the kills armed for the failing step (the kills step right before it) that were carried out
            done = {(k['method'], k['ordinal'], k['phase']) for k in rec.get('killlog', []) if k.get('killed')}
            armed = []
            if isinstance(b['seq'], int) and 2 <= b['seq'] <= len(sc['steps']) and sc['steps'][b['seq'] - 2].get('do') == 'kills':
                armed = sc['steps'][b['seq'] - 2].get('kills') or []
            kl = [(k['method'], k['phase']) for k in armed if (k['method'], k['ordinal'], k['phase']) in done]
            if not armed:
                kl = [(k['method'], k['phase']) for k in rec.get('killlog', []) if k.get('killed')]
            chk.violation({'what': b['what'], 'do': b['do'], 'kills': json.dumps(sorted(set(kl))),
                           'output_order': output_order(sc, ev.get('res', '')) if b['do'] == 'scan' else ''},
                          '%s (scenario %s, seq %s, %s; machines killed at %s): %s' % (b['what'], b['id'], b['seq'], b['do'], kl, str(b['detail'])[:300]),
                          {'scenario': sc, 'record': rec})
        if not replay:
            # executor level (Exec.tla): the design model of the executor's task lifecycle under machine loss, checked
            # exhaustively; real sessions with a machine killed at the n-th grant / call / reply / location / ok event of
            # the executor, the result then consumed by a second invocation: ExecMon judges, ExecTrace validates
            execx.run(chk, w, tier, kinds=('kill',), nkill=8, mc_only=('ExecMC_fixed.cfg', 'ExecMC_live.cfg', 'ExecMC_assignfirst.cfg'))
        return chk.finish()
