"""C17 — readers and scanners deliver the same rows however they are read.

The Go harness (harness/c17, harness/c17x) runs read sessions on the real readers: scripted upstream
chunkings (incl. zero-row reads and a final (n>0, EOF)), cycling destination sizes, optional injected
upstream error; it records for each Read call (k, n, err, whole destination) with the destination
pre-filled with sentinels, and at the end the rows retained from earlier reads.
specs/ReaderMon.tla is the contract + the meaning of each reader; TLC walks every session as a state
machine and judges it.
"""
import json
import os
import random
import sys

sys.path.insert(0, '/verif/lib')
import vlib
from vlib import Inconclusive

META = {
    'technique': 'TLA+ state-machine spec of the Reader contract and of each reader\'s meaning (ReaderMon.tla); recorded read sessions of the real readers judged step by step by TLC',
    'level_text': 'model_checking of recorded behaviour: each Read call of each session is one step of the ReaderMon state machine (count in range, only delivered rows written, sticky end, delivered rows unaltered, concatenation = meaning computed in TLA+ from the sources); sessions sweep destination-size sequences x upstream chunkings (zero-row reads, rows-with-EOF) x reader kinds x injected upstream errors',
    'level_note': 'int-typed columns only (type variety is covered by C07/C11); sizes stay below the 128-row internal vector except for dedicated large sessions; the user functions plugged into map/filter/flatmap are fixed and re-stated in TLA+',
}

ZERO_OK = {'scanner', 'scanv', 'scanner_arity', 'scanner_type', 'multi', 'map', 'filter', 'flatmap', 'head', 'prefixed', 'writerfunc', 'fold', 'cogroup', 'sort', 'execmulti'}
NCOL = {'multi': 1, 'frame': 1, 'decoding': 1, 'map': 1, 'filter': 1, 'flatmap': 1, 'head': 1, 'prefixed': 1,
        'writerfunc': 1, 'scanner': 2, 'scanv': 1, 'scanner_arity': 1, 'scanner_type': 2, 'fold': 2, 'cogroup': 2, 'reduce': 2, 'merge': 2, 'sort': 2, 'execmulti': 1, 'taskbuffer': 1}
ROOT_KINDS = ['multi', 'frame', 'decoding', 'map', 'filter', 'flatmap', 'head', 'writerfunc',
              'fold', 'cogroup', 'reduce', 'merge', 'sort', 'scanner', 'scanv', 'scanner_arity', 'scanner_type']
EXEC_KINDS = ['execmulti', 'taskbuffer']


def mk_rows(rng, n, ncol, sorted_keys=False, unique=False, kmax=4):
    if ncol == 1:
        return [[rng.randrange(0, 12)] for _ in range(n)]
    if unique:
        keys = sorted(rng.sample(range(0, max(kmax, n) + 2), n))
    else:
        keys = [rng.randrange(0, kmax) for _ in range(n)]
        if sorted_keys:
            keys.sort()
    return [[k, rng.randrange(0, 9)] for k in keys]


def gen_case(rng, cid, kind, big=False):
    ncol = NCOL[kind]
    nsrc = 1
    if kind in ('multi', 'cogroup', 'execmulti'):
        nsrc = rng.choice([1, 2, 2, 3])
    if kind in ('merge', 'reduce'):
        nsrc = rng.choice([0, 1, 2, 2, 3])
    srcs = []
    for _ in range(nsrc):
        n = rng.choice([0, 1, 2, 3, 4, 5, 6, 7]) if not big else rng.choice([127, 128, 129, 200, 257, 300])
        srcs.append(mk_rows(rng, n, ncol, sorted_keys=kind in ('merge', 'reduce'), unique=kind == 'reduce',
                            kmax=4 if not big else 40))
    zero = kind in ZERO_OK
    chunks = [rng.choice(([0] if zero else []) + [1, 1, 2, 3, 5, 200]) for _ in range(rng.choice([1, 2, 3]))]
    if all(c == 0 for c in chunks):
        chunks.append(1)
    if big:
        chunks = [rng.choice([1, 64, 127, 128, 129, 1000]) for _ in range(2)]
    if kind == 'decoding':
        chunks = [rng.choice([0, 1, 2, 5]) for _ in range(rng.choice([1, 2, 3]))]
        if all(c == 0 for c in chunks):
            chunks.append(2)
    reads = [rng.choice([1, 2, 3, 5, 8]) for _ in range(rng.choice([1, 2, 3]))]
    if big:
        reads = [rng.choice([1, 100, 128, 129, 300])] if rng.random() < 0.7 else [rng.choice([3, 128]), rng.choice([7, 200])]
    c = {'id': cid, 'kind': kind, 'ncol': ncol, 'srcs': srcs, 'chunks': chunks, 'eoflast': rng.random() < 0.5,
         'reads': reads, 'param': rng.randrange(0, 8) if kind == 'head' else 0, 'errat': 0, 'spill': 0, 'canary': 0}
    if kind in ('frame',):
        c['chunks'] = []
    if kind == 'sort':
        c['spill'] = rng.choice([1, 8, 64, 1 << 20])
        c['canary'] = rng.choice([1, 2, 3, 4, 256])
        c['param'] = rng.choice([0, 1, 2, 3])  # SpillBatchSize
    if kind not in ('frame', 'decoding', 'taskbuffer') and rng.random() < 0.2:
        c['errat'] = rng.randrange(1, 7)
    c['slack'] = rng.choice([0, 0, 1, 3, 8]) if kind not in ('scanner', 'scanv', 'scanner_arity', 'scanner_type') else 0
    if kind in ('scanner_arity', 'scanner_type'):
        # well-formed Scan calls before the ill-formed one (fewer than there are rows)
        c['param'] = rng.randrange(0, min(3, len(srcs[0])) + 1) if srcs and srcs[0] else 0
        if c['param'] > 0:
            c['errat'] = 0
            c['chunks'] = [ch for ch in c['chunks'] if ch > 0] or [1]
    return c


def gen_cases(tier, kinds):
    rng = random.Random(vlib.seed() * 7919 + 17)
    n_small = 110 if tier == 'quick' else 1500
    n_big = 4 if tier == 'quick' else 40
    cases = []
    for kind in kinds:
        for _ in range(n_small):
            cases.append(gen_case(rng, len(cases) + 1, kind))
        if kind not in ('cogroup',):
            for _ in range(n_big):
                cases.append(gen_case(rng, len(cases) + 1, kind, big=True))
    return cases


def run(tier, replay=None):
    chk = vlib.Check('C17', tier)
    chk.assumptions = vlib.TRUSTED
    with vlib.WorkCopy('c17', harness=['c17', 'c17x']) as w:
        if replay:
            rp = json.load(open(os.path.join(replay, 'replay.json')))
            cases = [rp['payload']['case']]
            for i, c in enumerate(cases):
                c['id'] = i + 1
            root = [c for c in cases if c['kind'] in ROOT_KINDS]
            ex = [c for c in cases if c['kind'] in EXEC_KINDS]
        else:
            root = gen_cases(tier, ROOT_KINDS)
            ex = gen_cases(tier, EXEC_KINDS)
            for i, c in enumerate(ex):
                c['id'] = len(root) + i + 1
        recs = []
        for cases, pkg, test, out in ((root, '.', 'TestVerifC17$', 'c17_records.ndjson'),
                                      (ex, './exec/', 'TestVerifC17x$', 'c17x_records.ndjson')):
            if not cases:
                continue
            json.dump(cases, open(w.out('cases.json'), 'w'))
            p = w.gotest(pkg, test, env={'VERIF_CASES': w.out('cases.json')}, timeout=1200)
            if p.returncode != 0 or not os.path.exists(w.out(out)):
                raise Inconclusive('harness %s failed:\n%s' % (test, (p.stdout or '')[-3000:]))
            rs = vlib.read_ndjson(w.out(out))
            if len(rs) != len(cases):
                raise Inconclusive('%s: %d records for %d cases' % (test, len(rs), len(cases)))
            recs += rs
        allcases = {c['id']: c for c in root + ex}
        vlib.write_ndjson(w.out('all.ndjson'), recs)
        v = vlib.judge(chk, w.root + '/tlc', 'mon', 'ReaderMon', 'ReaderMon.cfg', 'c17_records.ndjson',
                       w.out('all.ndjson'), 'c17_verdict.json', nrecs=len(recs))
        chk.cov['traces_validated_against_impl'] = len(recs)
        chk.cov['read_calls'] = sum(len(r.get('reads', [])) for r in recs)
        for c in root + ex:
            chk.case({k: c[k] for k in c if k != 'id'}, nontrivial=sum(len(x) for x in c['srcs']) > 0)
        chk.cov['rule'] = ('sessions generated from VERIF_SEED per reader kind (sources <=7 rows or 127..300 rows, chunkings over '
                           '{0,1,2,3,5,200}, destination sizes over {1,2,3,5,8,...}, rows-with-EOF on/off, injected upstream error '
                           'in 20%); distinct by full case; non-trivial = at least one source row')
        byid = {r['id']: r for r in recs}
        for x in recs[:2]:
            chk.sample({'session': {k: x[k] for k in ('kind', 'srcs', 'chunks', 'eoflast', 'errat')}, 'reads': x['reads'][:4]})
        seen = set()
        for b in v['bad']:
            c = allcases[b['id']]
            key = (b['id'], b['what'])
            if key in seen:
                continue
            seen.add(key)
            ident = {'kind': b['kind'], 'what': b['what'], 'eoflast': c['eoflast'], 'errat_set': c['errat'] > 0,
                     'zero_chunks': 0 in c['chunks']}
            chk.violation(ident, 'reader %s: %s at read %s (case %s)' % (b['kind'], b['what'], b['at'], json.dumps(c)[:300]),
                          {'case': c, 'record': byid.get(b['id'])})
        # binding self-test: corrupt one accepted session (shift one delivered value) -> must be rejected
        okrec = next((r for r in recs if r['kind'] == 'map' and r['reads'] and r['reads'][0]['n'] > 0
                      and r['id'] not in {b['id'] for b in v['bad']}), None)
        if okrec:
            bad = json.loads(json.dumps(okrec))
            bad['reads'][0]['dst'][0][0] += 1
            vlib.write_ndjson(w.out('self.ndjson'), [bad])
            chk2 = vlib.Check('C17', tier)
            v2 = vlib.judge(chk2, w.root + '/tlc', 'self', 'ReaderMon', 'ReaderMon.cfg', 'c17_records.ndjson',
                            w.out('self.ndjson'), 'c17_verdict.json', nrecs=1)
            ok = any(b['what'] in ('RowsMatchMeaning', 'DeliveredRowsUnaltered') for b in v2['bad'])
            chk.cov['binding_selftest'] = {'ok': ok, 'corruption': 'one delivered value of an accepted map session changed',
                                           'rejected_by': sorted(set(b['what'] for b in v2['bad']))}
            if not ok:
                raise Inconclusive('binding self-test failed')
        return chk.finish()
