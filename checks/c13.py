"""C13 — caching is transparent, complete-or-absent, and skips recomputation."""
import json
import os
import random
import sys

sys.path.insert(0, '/verif/lib')
import vlib
import progs
from vlib import Inconclusive

META = {
    'technique': 'TLA+ session monitor ProgMon.tla with cache state (cview: shards whose file is complete as last listed; cexp: expected shard contents) judging recorded run / list-cache-files / delete / fault-injection histories of programs with Cache and CachePartial, each scenario in a child process over a fault-injecting file layer',
    'level_text': 'model_checking of recorded behaviour + fault enumeration: programs with a cache operator at the head, in the middle, before and after a shuffle and under Head are run twice or three times with all subsets of pre-existing shard files and with a failure injected at each file operation of the cache writer (create, each write, close=publish); after every run the shard files are decoded the way a later run would decode them; TLC checks rows unchanged by caching, every shard file absent or exactly the complete shard, and upstream user-function calls skipped exactly for the shards the driver found cached (Cache: all-or-nothing, CachePartial: per shard)',
    'level_note': 'file layer = base/file local implementation wrapped by vfault (a failed close does not publish); the compressor\'s own close cannot be made to fail independently of the file writes underneath it',
}


def mkprog(rng, pid, kind, pos, nsh, tail):
    g = progs.Gen(rng)
    prefix = 'vfault://cache/p%d' % pid
    n = rng.choice([4, 7, 10])
    if rng.random() < 0.5:
        i = g.add(progs.N('const', nshard=nsh, rows=progs.rows(rng, n, 4)), 'eo', nsh)
    else:
        i = g.add(progs.N('readerfunc', nshard=nsh, shards=[progs.rows(rng, rng.choice([0, 2, 3, 5]), 4) for _ in range(nsh)], batch=rng.choice([0, 1, 2])), 'eo', nsh)
    k = 'eo'
    if pos == 'aftershuffle':
        i = g.add(progs.N('reshuffle', **{'in': [i]}), 'bag', nsh)
        k = 'bag'
    if pos != 'head':
        i = g.add(progs.N('map', **{'in': [i]}, f='inc'), k, nsh)
    c = g.add(progs.N(kind, **{'in': [i]}, prefix=prefix), k, nsh)
    i = c
    if tail in ('prefixed', 'prefixedreduce'):
        # the cache wrapped by another slice (Prefixed): it must still be found and used as a cache
        i = g.add(progs.N('prefixed', **{'in': [i]}, n=1), k, nsh)
        if tail == 'prefixedreduce':
            i = g.add(progs.N('reduce', **{'in': [i]}, f='sum'), 'bag', nsh)
    if tail == 'map':
        i = g.add(progs.N('map', **{'in': [i]}, f='kmod'), k, nsh)
    elif tail == 'reduce':
        i = g.add(progs.N('reduce', **{'in': [i]}, f='sum'), 'bag', nsh)
    elif tail == 'head':
        i = g.add(progs.N('head', **{'in': [i]}, n=rng.choice([1, 2])), k if k == 'eo' else 'weak', nsh)
    taps = [x for x in (c, i) if x in progs.tappable(g.nodes, i)]
    if tail in ('prefixed', 'prefixedreduce'):
        taps = [x for x in taps if x != c]   # a tap would come between the cache and its wrapper
    return {'nodes': g.nodes, 'out': i, 'taps': taps}, prefix


def gen(tier):
    rng = random.Random(vlib.seed() * 12007 + 1)
    scs, pid = [], 0
    combos = [(kind, pos, tail) for kind in ('cache', 'cachepartial') for pos in ('head', 'middle', 'aftershuffle') for tail in ('', 'map', 'reduce', 'head', 'prefixed', 'prefixedreduce')]
    reps = 1 if tier == 'quick' else 5
    for kind, pos, tail in combos:
        for _ in range(reps):
            for ex in (('local', 'bigmachine') if tier != 'quick' else (rng.choice(['local', 'bigmachine']),)):
                pid += 1
                nsh = rng.choice([2, 3])
                prog, prefix = mkprog(rng, pid, kind, pos, nsh, tail)
                lst = {'do': 'cachefiles', 'as': '', 'res': '', 'args': [], 'prefix': prefix, 'n': nsh}
                subset = sorted(rng.sample(range(nsh), rng.randrange(0, nsh + 1)))
                # after a completed run that reads the cached slice to its end (nothing stops early) the files exist
                lstm = dict(lst, must=tail != 'head')
                steps = [lst, progs.step_run('a', prog), progs.step_scan('a'), lstm,
                         {'do': 'cachedelete', 'as': '', 'res': '', 'args': [], 'prefix': prefix, 'n': nsh, 'shards': subset}, lst,
                         progs.step_run('b', prog), progs.step_scan('b'), lstm,
                         progs.step_run('c', prog), progs.step_scan('c'), lstm]
                scs.append(progs.scenario(len(scs) + 1, steps, exec_=ex, machprocs=2, isolate=True, timeout_s=40))
    # faults at each file operation of the cache writer (exact-valued positions only)
    kinds = ['create', 'write', 'close']
    nf = 14 if tier == 'quick' else 120
    for j in range(nf):
        pid += 1
        kind = rng.choice(['cache', 'cachepartial'])
        nsh = rng.choice([1, 2, 3])
        prog, prefix = mkprog(rng, pid, kind, rng.choice(['head', 'middle']), nsh, rng.choice(['', 'map', 'reduce']))
        lst = {'do': 'cachefiles', 'as': '', 'res': '', 'args': [], 'prefix': prefix, 'n': nsh}
        fk = kinds[j % 3]
        faults = [[fk, rng.randrange(1, 4)]] + ([[rng.choice(kinds), rng.randrange(1, 6)]] if rng.random() < 0.3 else [])
        steps = [lst, {'do': 'faults', 'as': '', 'res': '', 'args': [], 'faults': faults}, progs.step_run('a', prog),
                 {'do': 'faults', 'as': '', 'res': '', 'args': [], 'faults': []}, lst,
                 progs.step_run('b', prog), progs.step_scan('b'), lst, progs.step_run('c', prog), progs.step_scan('c'), lst]
        scs.append(progs.scenario(len(scs) + 1, steps, exec_=rng.choice(['local', 'local', 'bigmachine']), machprocs=2, isolate=True, timeout_s=40))
        scs[-1]['faulty'] = True
    return scs


def gen_unit(tier):
    rng = random.Random(vlib.seed() * 13001 + 7)
    cases = []
    n = 300 if tier == 'quick' else 6000
    for _ in range(n):
        big = rng.random() < 0.12
        c = {'id': len(cases) + 1, 'n': rng.choice([0, 1, 3, 6, 10]) if not big else rng.choice([6, 12]),
             'strlen': rng.choice([0, 3, 20]) if not big else rng.choice([70000, 150000]),
             'chunks': [rng.choice([0, 1, 2, 3, 100]) for _ in range(rng.choice([1, 2]))], 'eoflast': rng.random() < 0.5,
             'reads': [rng.choice([1, 2, 5, 64])], 'faults': [], 'errat': 0, 'abandon': 0, 'pre': rng.random() < 0.2}
        if all(x == 0 for x in c['chunks']):
            c['chunks'].append(1)
        x = rng.random()
        if x < 0.45:
            c['faults'] = [[rng.choice(['create', 'write', 'write', 'write', 'close']), rng.randrange(1, 30)]]
        elif x < 0.6:
            c['errat'] = rng.randrange(1, 6)
        elif x < 0.7:
            c['abandon'] = rng.randrange(1, 4)
        cases.append(c)
    return cases


def run(tier, replay=None):
    chk = vlib.Check('C13', tier)
    chk.assumptions = vlib.TRUSTED
    with vlib.WorkCopy('c13', harness=['prog', 'c13']) as w:
        unit = []
        if replay:
            rp = json.load(open(os.path.join(replay, 'replay.json')))['payload']
            scs = [rp['scenario']] if 'scenario' in rp else []
            unit = [rp['case']] if 'case' in rp else []
            for k, x in enumerate(scs + unit):
                x['id'] = k + 1
        else:
            scs = gen(tier)
            unit = gen_unit(tier)
        if unit:
            json.dump(unit, open(w.out('unit.json'), 'w'))
            p = w.gotest('./internal/slicecache/', 'TestVerifC13$', env={'VERIF_CASES': w.out('unit.json')}, timeout=1500)
            uo = w.out('c13_records.ndjson')
            if p.returncode != 0 or not os.path.exists(uo):
                raise Inconclusive('unit harness failed:\n' + (p.stdout or '')[-3000:])
            urecs = vlib.read_ndjson(uo)
            uv = vlib.judge(chk, w.root + '/tlc', 'cachefile', 'CacheFile', 'CacheFile.cfg', 'c13_records.ndjson', uo, 'c13_verdict.json', nrecs=len(urecs))
            ub = {c['id']: c for c in unit}
            ur = {r['id']: r for r in urecs}
            for b in uv['bad']:
                c = ub[b['id']]
                fk = c['faults'][0][0] if c['faults'] else ''
                chk.violation({'layer': 'writer', 'what': b['what'], 'fault': fk, 'upstream_error': c['errat'] > 0, 'abandoned': c['abandon'] > 0, 'flushes_midstream': c['strlen'] > 60000},
                              'cache writer: %s (case %s)' % (b['what'], json.dumps(c)), {'case': c, 'record': ur[b['id']]})
            chk.cov['writer_sessions'] = len(urecs)
            chk.cov['writer_sessions_with_file_faults'] = sum(1 for c in unit if c['faults'])
            chk.sample({'writer_case': unit[0], 'record': urecs[0]})
            for c in unit:
                chk.case({k: c[k] for k in c if k != 'id'}, nontrivial=True)
        if not scs:
            chk.cov['traces_validated_against_impl'] = len(unit)
            return chk.finish()
        recs, path = progs.execute(w, scs, workers=10, timeout=3000)
        # runs under injected file faults may fail: that is allowed (the files are what is judged); mark them
        for r, sc in zip(recs, scs):
            if sc.get('faulty'):
                for e in r['events']:
                    if e['do'] == 'run' and e.get('as') == 'a':
                        e['lenient'] = True
                        if e.get('err'):
                            e['faultrun_failed'] = e['err'][:200]
        vlib.write_ndjson(path, recs)
        v = progs.judge(chk, w, path, len(recs))
        byid = {s['id']: s for s in scs}
        rb = {r['id']: r for r in recs}
        for b in v['bad']:
            sc = byid[b['id']]
            cn = [n for st in sc['steps'] if st.get('prog') for n in st['prog']['nodes'] if n['op'] in ('cache', 'cachepartial')]
            ops = [n['op'] for n in sc['steps'][1 if sc['steps'][0]['do'] != 'cachefiles' else 1].get('prog', {}).get('nodes', [])] if False else []
            chk.violation({'what': b['what'], 'exec': b['exec'], 'cacheop': cn[0]['op'] if cn else '', 'faulty': bool(sc.get('faulty')), 'detail': str(b['detail'])[:20] if b['what'].startswith('ShardFile') else ''},
                          '%s (%s, %s, scenario %s seq %s): %s' % (b['what'], b['exec'], cn[0]['op'] if cn else '', b['id'], b['seq'], str(b['detail'])[:150]),
                          {'scenario': sc, 'record': rb[b['id']]})
        chk.cov['traces_validated_against_impl'] = len(recs) + len(unit)
        chk.cov['fault_scenarios'] = sum(1 for s in scs if s.get('faulty'))
        chk.cov['fault_runs_that_failed'] = sum(1 for r in recs for e in r['events'] if e.get('faultrun_failed'))
        chk.cov['shard_files_decoded'] = sum(len(e['files']) for r in recs for e in r['events'] if e['do'] == 'cachefiles')
        for s in scs:
            chk.case({'steps': s['steps'], 'exec': s['exec']}, nontrivial=True)
        chk.cov['rule'] = 'cache kind x position (head, middle, after shuffle) x tail (none, map, reduce, head) x executor, with a random subset of shard files deleted between runs; plus scenarios with 1-2 failures injected at create/write/close ordinals of the cache files; distinct by full scenario'
        chk.sample({'scenario': scs[0]['steps'][:3]})
        chk.sample({'events': [{k: e[k] for k in e if k not in ('prog', 'taps')} for e in recs[0]['events'][:5]]})
        return chk.finish()
