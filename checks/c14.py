"""C14 — cluster manager never oversubscribes machines nor leaks capacity or requests."""
import json
import os
import random
import sys

sys.path.insert(0, '/verif/lib')
import vlib
from vlib import Inconclusive

META = {
    'technique': 'TLA+ Cluster.tla (machineManager.Do + schedule()) checked exhaustively by TLC; recorded placement decisions of the real schedule() and recorded hook-event streams of a live machineManager (offer/cancel/done/kill/probation) judged by the ledger monitor ClusterMon.tla, including machines that die while they are being started (pending ledger: PendingCountsOnlyMachinesStillStarting); the same event streams are validated against Cluster.tla\'s own actions by ClusterTrace.tla (conformance/DRIFT, binding self-test by corrupting a logged field); failure paths of bigmachineExecutor.Run in real sessions with machine combiners (machine dies at the n-th Worker.Compile / CommitCombiner / Run call): ProcsReturnedWhenTaskEnds',
    'level_text': 'model_checking: the manager design (request queue, reservation placement, loads, health, need/pending accounting, batched growth, stops, probation) is explored exhaustively for 4-5 requests and 3-4 machines (capacity, conservation, exclusivity, healthy-only, need accounting, no over-start); every placement decision for all small queues x machine loads is replayed through the real schedule() and must be a result of the documented algorithm (TLC); event sequences against a live manager on a bigmachine testsystem are recorded through hooks in Do and judged against a ledger kept from the events (never oversubscribed, only healthy machines, procs returned once, need accounting, growth justified, fitting request eventually granted)',
    'level_note': 'bigmachineExecutor.Run\'s obligation to call Done on every exit path is exercised by real sessions whose machines die at chosen RPCs of the executor (ledger clause ProcsReturnedWhenTaskEnds) and through whole sessions in C06; the local limiter through hooks in C06; timing: probation timeout and keepalive are shortened by the harness; manager events are attributed to the manager under observation by goroutine id (managers of earlier sessions keep ticking)',
}


def gen(tier):
    rng = random.Random(vlib.seed() * 10007 + 5)
    cases = []
    # (1) placement: exhaustive over small configurations in thorough, sampled in quick
    reqs_space = [[p, c] for p in (0, 1) for c in (1, 2, 3)]
    conf = []
    import itertools
    for nr in (1, 2, 3):
        for rs in itertools.product(reqs_space, repeat=nr):
            for nm in (1, 2, 3):
                for ms in itertools.product([(mx, ld) for mx in (1, 2, 3) for ld in range(0, mx + 1)], repeat=nm):
                    conf.append((list(map(list, rs)), list(map(list, ms))))
    if tier == 'quick':
        conf = rng.sample(conf, 2500)
    elif len(conf) > 60000:
        conf = rng.sample(conf, 60000)
    for rs, ms in conf:
        cases.append({'id': len(cases) + 1, 'mode': 'place', 'reqs': rs, 'machs': ms, 'machprocs': 0, 'maxp': 0, 'maxload': 0, 'events': [], 'probation_ms': 0, 'bootkills': []})
    # (2) live manager
    n = 14 if tier == 'quick' else 250
    for k in range(n):
        machprocs = rng.choice([2, 2, 4])
        maxload = rng.choice([0.5, 0.95, 0.95, 1.0])
        cap = max(1, int(machprocs * maxload))
        maxp = rng.choice([cap, 2 * cap, 3 * cap, 5])
        evs, rid, live = [], 0, []
        for _ in range(rng.choice([6, 10, 14])):
            c = rng.random()
            if c < 0.45 or not live:
                procs = rng.choice([1, 1, cap, max(1, cap - 1)])
                evs.append(['offer', rid, rng.choice([0, 0, 1]), procs])
                live.append(rid); rid += 1
            elif c < 0.55:
                evs.append(['cancel', rng.choice(live)])
            elif c < 0.9:
                r = rng.choice(live)
                evs.append(['done', r, rng.choice(['nil', 'nil', 'remote', 'transport'])])
            elif c < 0.95:
                evs.append(['kill', rng.randrange(0, 3)])
            else:
                evs.append(['wait', 200])
        evs += [['done', r, 'nil'] for r in live]
        # some machines die while they are being started (at the executor's first call to them)
        bk = sorted(set(rng.sample(range(1, 5), rng.choice([1, 2])))) if rng.random() < 0.35 else []
        cases.append({'id': len(cases) + 1, 'mode': 'live', 'reqs': [], 'machs': [], 'machprocs': machprocs, 'maxp': maxp, 'maxload': maxload,
                      'events': evs, 'probation_ms': 150, 'bootkills': bk})
    # dedicated: the only machine of a one-machine cluster dies while booting; its replacement must be started
    for bk in ([1], [1, 2], [2]):
        evs = [['offer', 0, 0, 1], ['offer', 1, 0, 1], ['done', 0, 'nil'], ['done', 1, 'nil'], ['offer', 2, 0, 1], ['done', 2, 'nil']]
        cases.append({'id': len(cases) + 1, 'mode': 'live', 'reqs': [], 'machs': [], 'machprocs': 2, 'maxp': 2, 'maxload': 1.0,
                      'events': evs, 'probation_ms': 150, 'bootkills': bk})
    # dedicated: a machine stops while on probation, then the probation timeout elapses
    for k in range(1 if tier == 'quick' else 6):
        evs = [['offer', 0, 0, 1], ['offer', 1, 0, 1], ['done', 0, 'transport'], ['kill', 0], ['wait', 2600], ['offer', 2, 0, 1], ['offer', 3, 0, 1],
               ['done', 1, 'nil'], ['done', 2, 'nil'], ['done', 3, 'nil']]
        cases.append({'id': len(cases) + 1, 'mode': 'live', 'reqs': [], 'machs': [], 'machprocs': 2, 'maxp': 2, 'maxload': 1.0, 'events': evs, 'probation_ms': 2000, 'bootkills': []})
    # dedicated: demand that is an exact multiple of the machine capacity
    for mp, ml, maxp, ps in ((4, 1.0, 8, [4]), (2, 1.0, 8, [2, 2]), (2, 0.5, 4, [1, 1, 1])):
        evs = [['offer', j, 0, p] for j, p in enumerate(ps)] + [['done', j, 'nil'] for j in range(len(ps))]
        cases.append({'id': len(cases) + 1, 'mode': 'live', 'reqs': [], 'machs': [], 'machprocs': mp, 'maxp': maxp, 'maxload': ml, 'events': evs, 'probation_ms': 150, 'bootkills': []})
    # (3) a real session: the executor's own Offer/Done calls for tasks with Procs pragmas below, at and above the
    # machine's task capacity, recorded through the manager's hooks
    for k in range(4 if tier == 'quick' else 40):
        mp = rng.choice([2, 2, 4])
        procs = [rng.choice([1, 1, 2, mp, mp + 1, mp + 2, 2 * mp]) for _ in range(rng.choice([3, 5, 6]))]
        if k == 0:
            procs = [4, 1, 1, 1, 1]
            mp = 2
        cases.append({'id': len(cases) + 1, 'mode': 'e2e', 'reqs': [], 'machs': [], 'machprocs': mp, 'maxp': rng.choice([mp, 2 * mp]), 'maxload': 1.0,
                      'events': [], 'probation_ms': 150, 'bootkills': [], 'e2e': procs})
    # (4) failure paths of bigmachineExecutor.Run in a real session: the machine serving a chosen RPC of the executor
    # (compile, combiner commit, run) dies at that call; however the task ends, its procs must come back
    fp = [('Worker.CommitCombiner', 1), ('Worker.CommitCombiner', 2), ('Worker.Compile', 1), ('Worker.Compile', 2), ('Worker.Run', 1), ('Worker.Run', 3)]
    if tier != 'quick':
        fp = [(c_, n_) for c_ in ('Worker.CommitCombiner', 'Worker.Compile', 'Worker.Run', 'Worker.Stat') for n_ in range(1, 9)]
    for call, nth in fp:
        cases.append({'id': len(cases) + 1, 'mode': 'e2e', 'reqs': [], 'machs': [], 'machprocs': 2, 'maxp': 4, 'maxload': 1.0,
                      'events': [], 'probation_ms': 150, 'bootkills': [], 'e2e': [4], 'machcomb': True, 'killcall': call, 'killn': nth})
    return cases


def flatten(lrecs):
    """Lay the recorded live sessions out as one event file for ClusterTrace.tla: a Begin record per session with
    the manager's configuration (task capacity per machine, parallelism limit, as logged by the manager itself in
    MgrStart) and the requests it was offered, then the manager's hook events in the order they were emitted."""
    out = []
    hdr = {'ev': 'Header', 'reqs': [], 's': 0, 'seq': 0}
    for r in lrecs:
        evs = [e for e in r['events'] if e['ev'].startswith('Mgr')]
        st = [e for e in evs if e['ev'] == 'MgrStart']
        if not st:
            continue
        reqs = [[e['rid'], e['prio'], e['procs']] for e in evs if e['ev'] == 'MgrOffer']
        hdr['reqs'] += [[r['id']] + q for q in reqs]
        out.append({'ev': 'Begin', 's': r['id'], 'cap': st[0]['machprocs'], 'maxp': st[0]['maxp'], 'seq': 0})
        # machines are numbered per session in the order in which they come up (the recorder of the repository's
        # own tests numbers them across all managers of the process)
        mnum = {}
        for e in evs:
            if e['ev'] == 'MgrStarted':
                for m_ in e['machines']:
                    mnum.setdefault(m_, len(mnum))
        for e in evs:
            e = dict(e)
            e['s'] = r['id']
            if 'm' in e:
                e['m'] = mnum.get(e['m'], 1000 + e['m'])
            if 'machines' in e:
                e['machines'] = [mnum[m_] for m_ in e['machines']]
            out.append(e)
    return [hdr] + out


def conformance_one(chk, wdir, tag, recs):
    d = '%s/conf_%s' % (wdir, tag)
    os.makedirs(d, exist_ok=True)
    vlib.write_ndjson(d + '/c14_conf.ndjson', recs)
    if os.path.exists(d + '/c14_conf.json'):
        os.remove(d + '/c14_conf.json')
    r = vlib.tlc(d, 'ClusterTrace', 'ClusterTrace.cfg', workers=1, timeout=1500)
    chk.add_tlc('ClusterTrace ' + tag, r)
    if not os.path.exists(d + '/c14_conf.json'):
        return None, r
    return json.load(open(d + '/c14_conf.json')), r


def drift_check(chk, wdir, lrecs):
    """Conformance of the recorded manager sessions to Cluster.tla (ClusterTrace.tla): DRIFT lines, never a violation."""
    flat = flatten(lrecs)
    hdr, left = flat[0], flat[1:]
    nrec, drift, accepted = len(left), [], 0
    for attempt in range(6):
        if not left:
            break
        conf, r = conformance_one(chk, wdir, 'conf%d' % attempt, [hdr] + left)
        if conf is None:
            chk.cov['drift'] = -1
            print('DRIFT property=C14 ClusterTrace did not complete: %s' % (r.error or r.out[-300:]))
            break
        if conf['reached'] >= conf['n']:
            accepted = len({x['s'] for x in left})
            break
        stuck = left[min(max(conf['reached'] - 1, 0), len(left) - 1)]
        cfg = next(x for x in left if x['s'] == stuck['s'] and x['ev'] == 'Begin')
        drift.append({'session': stuck['s'], 'seq': stuck['seq'], 'ev': stuck['ev']})
        print('DRIFT property=C14 manager session %s (capacity %d, maxp %d) is not a behaviour of Cluster.tla at event seq %s (%s)'
              % (stuck['s'], cfg['cap'], cfg['maxp'], stuck['seq'], stuck['ev']))
        left = [x for x in left if x['s'] != stuck['s']]
    if chk.cov.get('drift') != -1:
        chk.cov['drift'] = len(drift)
    chk.cov['drift_traces'] = drift
    chk.cov['conformance_accepted_traces'] = accepted
    chk.cov['conformance_events'] = nrec
    chk.cov['conformance_configurations'] = sorted({'cap=%d,maxp=%d' % (x['cap'], x['maxp']) for x in left if x['ev'] == 'Begin'})
    # binding self-test: a done with a wrong load and a growth step with one machine too many must be rejected
    if accepted:
        res = []
        for name, evk, mut in (('MgrDone.load+1', 'MgrDone', lambda x: x.update(load=x['load'] + 1)),
                               ('MgrStart.nmach+1', 'MgrStart', lambda x: x.update(nmach=x['nmach'] + 1, pending=x['pending'] + x['machprocs']))):
            k = next((i for i, x in enumerate(left) if x['ev'] == evk), None)
            if k is None:
                continue
            cut = [dict(x) for x in left[:k + 120]]
            mut(cut[k])
            conf2, _ = conformance_one(chk, wdir, 'self_' + evk, [hdr] + cut)
            ok2 = conf2 is not None and conf2['reached'] < conf2['n']
            res.append({'corruption': name, 'corrupted_record': k + 2, 'rejected_at': conf2 and conf2['reached'] + 1, 'ok': ok2})
            if not ok2:
                raise Inconclusive('conformance self-test failed: a corrupted manager trace (%s) was accepted by ClusterTrace.tla' % name)
        chk.cov['conformance_selftest'] = res


def run(tier, replay=None):
    chk = vlib.Check('C14', tier)
    chk.assumptions = vlib.TRUSTED
    with vlib.WorkCopy('c14', harness=['c14']) as w:
        wdir = w.root + '/tlc'
        if replay:
            cases = [json.load(open(os.path.join(replay, 'replay.json')))['payload']['case']]
            cases[0]['id'] = 1
        else:
            for cfg, to in ([('ClusterMC.cfg', 600)] if tier == 'quick' else [('ClusterMC.cfg', 600), ('ClusterMC_big.cfg', 2400)]):
                r = vlib.tlc(wdir + '/mc', 'ClusterMC', cfg, workers=vlib.NCPU, timeout=to)
                vlib.tlc_must_parse(r, cfg)
                chk.add_tlc('exhaustive ' + cfg, r)
                if r.violated or not r.ok:
                    raise Inconclusive('design model %s: %s' % (cfg, r.violated or r.error))
            cases = gen(tier)
        json.dump(cases, open(w.out('cases.json'), 'w'))
        p = w.gotest('./exec/', 'TestVerifC14$', env={'VERIF_CASES': w.out('cases.json')}, timeout=2400)
        po, lo = w.out('c14_place.ndjson'), w.out('c14_live.ndjson')
        if p.returncode != 0 or not os.path.exists(po):
            raise Inconclusive('harness failed:\n' + (p.stdout or '')[-3000:])
        precs, lrecs = vlib.read_ndjson(po), vlib.read_ndjson(lo)
        if len(precs) + len(lrecs) != len(cases):
            raise Inconclusive('%d records for %d cases' % (len(precs) + len(lrecs), len(cases)))
        d = wdir + '/mon'
        r = vlib.tlc(d, 'ClusterMon', 'ClusterMon.cfg', files={'c14_place.ndjson': po, 'c14_live.ndjson': lo}, workers=1, timeout=2400)
        vp = d + '/c14_verdict.json'
        if not os.path.exists(vp):
            raise Inconclusive('ClusterMon produced no verdict:\n' + r.out[-3000:])
        chk.add_tlc('ClusterMon', r)
        v = json.load(open(vp))
        if v['n'] != len(cases):
            raise Inconclusive('ClusterMon consumed %s of %s records' % (v['n'], len(cases)))
        need = {'MgrSelect', 'MgrGrant', 'MgrDone', 'MgrOffer', 'MgrStart', 'MgrStarted'}
        kinds = set(e['ev'] for rr in lrecs for e in rr['events'])
        if lrecs and not need <= kinds:
            raise Inconclusive('manager hook events missing: %s' % sorted(need - kinds))
        byid = {c['id']: c for c in cases}
        rb = {rr['id']: rr for rr in precs + lrecs}
        for b in v['bad']:
            c = byid[b['id']]
            chk.violation({'mode': b['mode'], 'what': b['what']}, '%s: %s (case %s)' % (b['mode'], b['what'], json.dumps({k: c[k] for k in c if c[k]})[:300]),
                          {'case': c, 'record': rb.get(b['id'])})
        chk.cov['traces_validated_against_impl'] = len(cases)
        chk.cov['placement_decisions'] = len(precs)
        chk.cov['live_sessions'] = len(lrecs)
        chk.cov['real_session_runs'] = sum(1 for c in cases if c['mode'] == 'e2e')
        for rr in lrecs:
            if rr.get('runerr') and not rr.get('mayfail'):
                raise Inconclusive('the real-session run of case %s failed: %s' % (rr['id'], rr['runerr'][:300]))
        chk.cov['live_events'] = sum(len(rr['events']) for rr in lrecs)
        if not replay:
            # the repository's own machine-manager / bigmachine-executor tests, run under the recorder: every manager
            # loop is one more session for the ledger monitor and for the conformance check
            p2 = w.gotest('./exec/', 'TestVerifC14Dormant$', env={'VERIF_DORMANT': 'quick' if tier == 'quick' else 'all'}, timeout=1200)
            dp = w.out('c14_dormant.ndjson')
            drecs = vlib.read_ndjson(dp) if os.path.exists(dp) else []
            if p2.returncode != 0 or not drecs:
                raise Inconclusive('the repository\'s own manager tests did not run under the recorder:\n' + (p2.stdout or '')[-2000:])
            ep = w.out('c14_empty.ndjson')
            open(ep, 'w').close()
            d2 = wdir + '/mon2'
            r2 = vlib.tlc(d2, 'ClusterMon', 'ClusterMon.cfg', files={'c14_place.ndjson': ep, 'c14_live.ndjson': dp}, workers=1, timeout=1200)
            if not os.path.exists(d2 + '/c14_verdict.json'):
                raise Inconclusive('ClusterMon produced no verdict for the repository\'s tests:\n' + r2.out[-2000:])
            chk.add_tlc('ClusterMon (repository tests)', r2)
            v2 = json.load(open(d2 + '/c14_verdict.json'))
            for b in v2['bad']:
                rr = next(x for x in drecs if x['id'] == b['id'])
                chk.violation({'mode': 'repo-tests', 'what': b['what']}, 'repository test session %s: %s at event seq %s' % (b['id'], b['what'], b.get('seq')),
                              {'case': {'id': 1, 'mode': 'dormant'}, 'record': {k: rr[k] for k in rr if k != 'events'}})
            chk.cov['repo_test_manager_sessions'] = len(drecs)
            chk.cov['repo_test_manager_events'] = sum(len(x['events']) for x in drecs)
            chk.cov['repo_tests_failed_under_recorder'] = drecs[0].get('repo_tests_failed', [])
            chk.cov['traces_validated_against_impl'] += len(drecs)
            drift_check(chk, wdir, lrecs + drecs)
        chk.cov['grants'] = sum(1 for rr in lrecs for e in rr['events'] if e['ev'] == 'MgrGrant')
        for c in cases:
            chk.case({k: c[k] for k in c if k != 'id'}, nontrivial=c['mode'] in ('live', 'e2e') or len(c['reqs']) + len(c['machs']) >= 3)
        chk.cov['rule'] = 'placement: queues of 1-3 requests (priority 0/1, procs 1-3) x 1-3 machines (max 1-3, load 0..max), sampled in quick / exhaustive up to 60000 in thorough; live: 6-14 random events over machprocs 2/4, max-load 0.5-1.0, maxp 1-5, plus dedicated probation/stop and exact-multiple-demand sessions'
        if lrecs:
            chk.sample({'live_case': byid[lrecs[0]['id']]['events'], 'events': lrecs[0]['events'][:8]})
        chk.sample({'placement': precs[0]} if precs else {})
        return chk.finish()
