"""C10 — external sort, merge and reduce-merge are correct at any spill size."""
import importlib.util
import json
import os
import random
import sys

sys.path.insert(0, '/verif/lib')
import vlib
from vlib import Inconclusive

META = {
    'technique': 'TLA+ ReaderMon.tla (sorted-bag / keyed-sorted / sticky-end / error-not-EOF / spill-removed clauses) judges recorded read sessions of the real SortReader, NewMergeReader and Reduce readers under swept spill targets, canary sizes, spill batch sizes, stream counts, chunkings and injected read errors',
    'level_text': 'model_checking of recorded behaviour: every Read call of every session is a step of the ReaderMon state machine; sessions sweep inputs (empty, all-equal keys, many more rows than a spill, rows beyond the 128-row merge buffers), spill targets from 1 byte, canary 1..4 rows, spill batch 1..3, 0..3 input streams (some empty), upstream chunkings (sort: incl. zero-row reads) and an error injected at each upstream read ordinal; TLC checks output = sorted permutation / sorted union / one folded row per key, errors reported and never turned into EOF, and that no spill file outlives SortReader\'s creation',
    'level_note': 'keys and values are ints (ordering of other key types: C11 Less); merge/reduce inputs never return zero-row reads (excluded by the property)',
}


def sorted_rows(rng, n, kmax, unique):
    if unique:
        ks = sorted(rng.sample(range(0, max(kmax, n) + 3), n))
    else:
        ks = sorted(rng.randrange(0, kmax) for _ in range(n))
    return [[k, rng.randrange(0, 9)] for k in ks]


def gen(tier):
    rng = random.Random(vlib.seed() * 7001 + 13)
    cases = []

    def add(kind, srcs, **kw):
        c = {'id': len(cases) + 1, 'kind': kind, 'ncol': 2, 'srcs': srcs, 'chunks': kw.get('chunks', [200]),
             'eoflast': kw.get('eoflast', rng.random() < 0.5), 'reads': kw.get('reads', [rng.choice([1, 2, 3, 5, 128])]),
             'param': kw.get('param', 0), 'errat': kw.get('errat', 0), 'spill': kw.get('spill', 0), 'canary': kw.get('canary', 0)}
        cases.append(c)

    n_small = 250 if tier == 'quick' else 6000
    for _ in range(n_small):
        kind = rng.choice(['sort', 'sort', 'merge', 'reduce'])
        errat = rng.randrange(1, 8) if rng.random() < 0.25 else 0
        if kind == 'sort':
            n = rng.choice([0, 1, 2, 3, 5, 7, 7, 20, 40])
            kmax = rng.choice([1, 3, 3, 50])
            rows = [[rng.randrange(0, kmax), rng.randrange(0, 9)] for _ in range(n)]
            chunks = [rng.choice([0, 1, 2, 3, 200]) for _ in range(rng.choice([1, 2, 3]))]
            if all(x == 0 for x in chunks):
                chunks.append(1)
            add('sort', [rows], chunks=chunks, spill=rng.choice([1, 1, 8, 64, 1 << 20]), canary=rng.choice([1, 2, 3, 4, 256]),
                param=rng.choice([0, 1, 2, 3]), errat=errat)
        else:
            ns = rng.choice([0, 1, 2, 2, 3, 3])
            srcs = [sorted_rows(rng, rng.choice([0, 0, 1, 3, 5, 7]), rng.choice([1, 3, 8]), kind == 'reduce') for _ in range(ns)]
            chunks = [rng.choice([1, 2, 3, 200]) for _ in range(rng.choice([1, 2]))]
            add(kind, srcs, chunks=chunks, errat=errat)
    n_big = 12 if tier == 'quick' else 300
    for _ in range(n_big):
        kind = rng.choice(['sort', 'merge', 'reduce', 'reduce'])
        if kind == 'sort':
            n = rng.choice([300, 700, 2000])
            rows = [[rng.randrange(0, rng.choice([1, 10, 5000])), rng.randrange(0, 9)] for _ in range(n)]
            add('sort', [rows], chunks=[rng.choice([1, 100, 128, 1000])], spill=rng.choice([1, 64, 512, 4096]),
                canary=rng.choice([1, 3, 64, 256]), param=rng.choice([0, 1, 3, 128]), reads=[rng.choice([1, 100, 128, 300])],
                errat=rng.choice([0, 0, 0, 3, 9]))
        else:
            ns = rng.choice([2, 3])
            srcs = []
            for j in range(ns):
                n = rng.choice([127, 128, 129, 260, 400])
                # keys interleave so that some keys occur in a single stream right at the 128-row buffer boundary
                base = sorted(rng.sample(range(0, 1200), n))
                srcs.append([[k, rng.randrange(0, 9)] for k in base] if kind == 'reduce' else sorted_rows(rng, n, 600, False))
            add(kind, srcs, chunks=[rng.choice([1, 127, 128, 1000])], reads=[rng.choice([1, 100, 128, 300])], errat=rng.choice([0, 0, 0, 2, 5]))
    return cases


def run(tier, replay=None):
    chk = vlib.Check('C10', tier)
    chk.assumptions = vlib.TRUSTED
    with vlib.WorkCopy('c10', harness=['c17']) as w:
        if replay:
            cases = [json.load(open(os.path.join(replay, 'replay.json')))['payload']['case']]
            cases[0]['id'] = 1
        else:
            cases = gen(tier)
        json.dump(cases, open(w.out('cases.json'), 'w'))
        p = w.gotest('.', 'TestVerifC17$', env={'VERIF_CASES': w.out('cases.json')}, timeout=1500)
        out = w.out('c17_records.ndjson')
        if p.returncode != 0 or not os.path.exists(out):
            raise Inconclusive('harness failed:\n' + (p.stdout or '')[-3000:])
        recs = vlib.read_ndjson(out)
        if len(recs) != len(cases):
            raise Inconclusive('%d records for %d cases' % (len(recs), len(cases)))
        v = vlib.judge(chk, w.root + '/tlc', 'mon', 'ReaderMon', 'ReaderMon.cfg', 'c17_records.ndjson', out, 'c17_verdict.json',
                       nrecs=len(recs), timeout=2400)
        chk.cov['traces_validated_against_impl'] = len(recs)
        chk.cov['read_calls'] = sum(len(r.get('reads', [])) for r in recs)
        byid = {c['id']: c for c in cases}
        rb = {r['id']: r for r in recs}
        for c in cases:
            chk.case({k: c[k] for k in c if k != 'id'}, nontrivial=sum(len(x) for x in c['srcs']) > 1)
        chk.cov['rule'] = 'sessions from VERIF_SEED over sort/merge/reduce: inputs 0-40 rows (and 127-2000 rows), spill target 1B..1MiB, canary 1..256, spill batch 0..128, 0-3 streams, chunkings, error injected at an upstream read in 25%; distinct by full case; non-trivial = more than one input row'
        chk.sample({'case': cases[0], 'reads': rb[cases[0]['id']]['reads'][:3]})
        seen = set()
        for b in v['bad']:
            c = byid[b['id']]
            if (b['id'], b['what']) in seen:
                continue
            seen.add((b['id'], b['what']))
            big = sum(len(x) for x in c['srcs']) > 100
            chk.violation({'kind': b['kind'], 'what': b['what'], 'errat_set': c['errat'] > 0, 'big': big},
                          '%s: %s at read %s (case %s)' % (b['kind'], b['what'], b['at'], json.dumps({k: (c[k] if k != 'srcs' else [len(x) for x in c[k]]) for k in c})[:300]),
                          {'case': c, 'record': rb.get(b['id'])})
        return chk.finish()
