"""C08 — an invocation compiles to the same well-formed task graph everywhere."""
import json
import os
import random
import sys

sys.path.insert(0, '/verif/lib')
import vlib
from vlib import Inconclusive

META = {
    'technique': 'TLA+ Compile.tla (Same, UniqueNames, Acyclic, Roots, OnePerShard, Pipeline, Wiring, CombineKeys, SameAcross) judges task graphs dumped from the real compile(): generated operator DAGs compiled on the driver path, repeated, through worker.Compile from the gob-transported invocation (Result arguments as references, frozen CompileEnv, cache files flipped in between), in two separately started processes',
    'level_text': 'recorded behaviour judged by a TLA+ specification: random operator DAGs (const/readerfunc/map/filter/flatmap/fold/head/reduce/cogroup/reshuffle/repartition/reshard/prefixed/writerfunc/cache/cachepartial, Materialize/Procs/Exclusive pragmas, shared sub-slices consumed with different partition counts, up to three chained invocations with Result arguments, machine combiners on and off) are compiled by the real exec.compile six times (driver, repeated, worker.Compile after gob transport; each in two OS processes); TLC checks the six graphs equal and the well-formedness predicates of the property on each',
    'level_note': 'programs are sampled, not enumerated; the graph is observed through Task fields reachable from the roots (Name, Deps, Group, NumPartition, CombineKey, Combiner/Partitioner presence, Pragma, Slices), not through the Do closures; the two processes run the same binary',
}

UNARY = ['map', 'filter', 'flatmap', 'fold', 'head', 'reduce', 'reshuffle', 'repartition', 'reshard', 'prefixed', 'writerfunc', 'cache', 'cachepartial', 'cogroup']


def gen_prog(rng, argshards, big):
    """Returns (prog, out shard count). argshards: shard counts of available Result arguments."""
    nodes, shards = [], []

    def add(op, ins=(), n=0, nshard=0, arg=0, pragma=()):
        nodes.append({'op': op, 'in': list(ins), 'n': n, 'nshard': nshard, 'arg': arg, 'pragma': list(pragma)})

    nsrc = rng.randint(1, 2)
    for a, ns in enumerate(argshards):
        add('arg', arg=a, nshard=ns)
        shards.append(ns)
    for _ in range(nsrc if not argshards else rng.randint(0, 1)):
        ns = rng.randint(1, 3)
        if rng.random() < 0.5:
            add('const', nshard=ns)
        else:
            add('readerfunc', nshard=ns, pragma=pragmas(rng))
        shards.append(ns)
    nops = rng.randint(2, 9 if big else 6)
    for _ in range(nops):
        # prefer recent nodes but share older ones often
        def pick():
            if rng.random() < 0.55:
                return len(nodes) - 1
            return rng.randrange(len(nodes))
        op = rng.choice(UNARY + ['reshard', 'map', 'cogroup', 'reduce'])
        i = pick()
        if op == 'cogroup':
            ins = [i] + [pick() for _ in range(rng.randint(0, 2))]
            add('cogroup', ins)
            shards.append(max(shards[j] for j in ins))
        elif op == 'reshard':
            n = rng.choice([1, 1, 2, 3])
            add('reshard', [i], n=n)
            shards.append(n)
        elif op == 'head':
            add('head', [i], n=rng.randint(0, 3))
            shards.append(shards[i])
        elif op == 'prefixed':
            add('prefixed', [i], n=1)
            shards.append(shards[i])
        elif op in ('cache', 'cachepartial'):
            add(op, [i], n=rng.choice([0, (1 << shards[i]) - 1, rng.randrange(1 << shards[i])]), nshard=shards[i])
            shards.append(shards[i])
        elif op in ('map', 'filter', 'flatmap'):
            add(op, [i], pragma=pragmas(rng))
            shards.append(shards[i])
        else:
            add(op, [i])
            shards.append(shards[i])
    out = len(nodes) - 1 if rng.random() < 0.85 else rng.randrange(len(nodes))
    return {'nodes': nodes, 'out': out}, shards[out]


def pragmas(rng):
    ps = []
    if rng.random() < 0.3:
        ps.append('materialize')
    if rng.random() < 0.1:
        ps.append('procs2')
    if rng.random() < 0.1:
        ps.append('exclusive')
    return ps


def gen(tier):
    rng = random.Random(vlib.seed() * 8009 + 3)
    n = 300 if tier == 'quick' else 3000
    cases = []
    for i in range(n):
        ninv = rng.choice([1, 1, 2, 2, 3])
        progs, args, outs = [], [], []
        for k in range(ninv):
            a = []
            if k > 0:
                a = [rng.randrange(k) for _ in range(rng.randint(1, min(2, k) if rng.random() < 0.5 else 1))]
            p, o = gen_prog(rng, [outs[j] for j in a], big=tier != 'quick' and rng.random() < 0.3)
            progs.append(p)
            args.append(a)
            outs.append(o)
        cases.append({'id': i + 1, 'progs': progs, 'args': args})
    return cases


def rng_e2e():
    return random.Random(vlib.seed() * 8011 + 9)


def merge(cases, r1, r2):
    """One record per (case, machcomb) with the graphs of both processes side by side."""
    out = []
    if len(r1) != 2 * len(cases) or len(r2) != len(r1):
        raise Inconclusive('%d/%d records for %d cases' % (len(r1), len(r2), len(cases)))
    for a, b in zip(r1, r2):
        if (a['id'], a['machcomb']) != (b['id'], b['machcomb']):
            raise Inconclusive('record order differs between processes')
        rec = {'id': a['id'], 'machcomb': a['machcomb'], 'invs': []}
        if 'panic' in a or 'panic' in b:
            rec['panic'] = a.get('panic') or b.get('panic')
        if len(a['invs']) != len(b['invs']):
            rec['panic'] = rec.get('panic') or 'processes compiled a different number of invocations'
        else:
            for x, y in zip(a['invs'], b['invs']):
                v = {'err': [x['err'], y['err']]}
                if not x['err'] and not y['err']:
                    v.update({'werr': [x['werr'], y['werr']], 'nnamed': [x['nnamed'], y['nnamed']], 'nshard': x['nshard'],
                              'graphs': [x['g1'], x['g2'], x['g3'], y['g1'], y['g2'], y['g3']]})
                rec['invs'].append(v)
        out.append(rec)
    return out


def run(tier, replay=None):
    chk = vlib.Check('C08', tier)
    chk.assumptions = vlib.TRUSTED
    with vlib.WorkCopy('c08', harness=['c08']) as w:
        if replay and 'scenario' in json.load(open(os.path.join(replay, 'replay.json')))['payload']:
            import progs
            sc = json.load(open(os.path.join(replay, 'replay.json')))['payload']['scenario']
            sc['id'] = 1
            with vlib.WorkCopy('c08p', harness=['prog']) as wp:
                drecs, dpath = progs.execute(wp, [sc], workers=1, tag='c08diamond')
                dv = progs.judge(chk, wp, dpath, len(drecs), name='progmon_diamond')
                for b in dv['bad']:
                    chk.violation({'what': 'WorkersCompileTransportedInvocations', 'clause': b['what']},
                                  'result diamond: %s: %s' % (b['what'], str(b['detail'])[:300]), {'scenario': sc})
            return chk.finish()
        if replay:
            cases = [json.load(open(os.path.join(replay, 'replay.json')))['payload']['case']]
            cases[0]['id'] = 1
        else:
            cases = gen(tier)
        json.dump(cases, open(w.out('cases.json'), 'w'))
        recs = []
        for proc in ('1', '2'):
            p = w.gotest('./exec/', 'TestVerifC08$', env={'VERIF_CASES': w.out('cases.json'), 'VERIF_PROC': proc}, timeout=1800)
            out = w.out('c08_records_%s.ndjson' % proc)
            if p.returncode != 0 or not os.path.exists(out):
                raise Inconclusive('harness failed:\n' + (p.stdout or '')[-3000:])
            recs.append(vlib.read_ndjson(out))
        merged = merge(cases, recs[0], recs[1])
        path = w.out('c08_records.ndjson')
        vlib.write_ndjson(path, merged)
        v = vlib.judge(chk, w.root + '/tlc', 'mon', 'Compile', 'Compile.cfg', 'c08_records.ndjson', path, 'c08_verdict.json', nrecs=len(merged), timeout=3000)
        byid = {c['id']: c for c in cases}
        ntasks = 0
        ops = set()
        shared = reuse = cachedg = 0
        for r in merged:
            for inv in r['invs']:
                if 'graphs' in inv:
                    g = inv['graphs'][0]
                    ntasks += len(g['tasks'])
                    cachedg += any(t['cached'] for t in g['tasks'])
                    reuse += any(t['reshuf'] for t in g['tasks'])
                    for t in g['tasks']:
                        for s_ in t['slices']:
                            ops.add(s_['op'])
        chk.cov['traces_validated_against_impl'] = len(merged)
        chk.cov['graphs_compared'] = 6 * sum(len(r['invs']) for r in merged)
        chk.cov['tasks_in_driver_graphs'] = ntasks
        chk.cov['slice_ops_seen'] = sorted(ops)
        chk.cov['graphs_with_cached_shards'] = cachedg
        chk.cov['graphs_with_reshuffled_results'] = reuse
        for c in cases:
            chk.case({k: c[k] for k in c if k != 'id'}, nontrivial=sum(len(p['nodes']) for p in c['progs']) > 3)
        chk.sample({'case': cases[0], 'driver_graph_first_invocation': merged[0]['invs'][0].get('graphs', [None])[0]})
        # (e2e) workers that join later receive the invocations of a result diamond from the executor and must be able
        # to compile them: in dependency order (bigmachineExecutor.compile)
        if not replay:
            import progs
            with vlib.WorkCopy('c08p', harness=['prog']) as wp:
                dscs = progs.diamond_scenarios(rng_e2e(), 4 if tier == 'quick' else 30, 1)
                drecs, dpath = progs.execute(wp, dscs, workers=4, tag='c08diamond')
                dv = progs.judge(chk, wp, dpath, len(drecs), name='progmon_diamond')
                chk.cov['result_diamond_sessions'] = len(drecs)
                for b in dv['bad']:
                    chk.violation({'what': 'WorkersCompileTransportedInvocations', 'clause': b['what']},
                                  'result diamond r1; r2=f(r1); r3=g(r2); r4=join(r1,r3) on machines started for r4: %s: %s' % (b['what'], str(b['detail'])[:300]),
                                  {'scenario': dscs[b['id'] - 1]})
        for b in v['bad']:
            c = byid[b['id']]
            r = next(x for x in merged if x['id'] == b['id'] and x['machcomb'] == b['machcomb'])
            chk.violation({'what': b['what'], 'case': json.dumps({k: c[k] for k in c if k != 'id'}, sort_keys=True), 'machcomb': b['machcomb']},
                          '%s: invocation %d of %s (machine combiners %s)' % (b['what'], b['inv'], json.dumps({k: c[k] for k in c if k != 'id'})[:600], b['machcomb']),
                          {'case': c, 'record': r if len(json.dumps(r)) < 200000 else {'id': r['id']}})
        return chk.finish()
