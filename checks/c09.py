"""C09 — combining buffers hold one correctly folded value per key at any size."""
import json
import os
import random
import sys

sys.path.insert(0, '/verif/lib')
import vlib
from vlib import Inconclusive

META = {
    'technique': 'TLA+ HashTable.tla re-executes the combining hash table algorithm (probing, growth, compaction) with the real hash values and is compared slot by slot with the real combiningFrame after every operation; combiner read-back (with spills) judged against the one-row-per-key/ascending/fold clauses',
    'level_text': 'model_checking of recorded behaviour with full-state conformance: key/value sequences over small alphabets (so that probe chains, wrap-around, growth at 0.7 load and compaction order of size-8/16 tables are all reached) are fed to the real combiningFrame; after every Combine/Compact the real cap, len, per-slot hit counts and slot contents must equal the HashTable.tla model (TLC); sequences with spill thresholds from 1 upwards are fed to the real combiner and the rows read back must be one per key, ascending, with the fold of all values, and the spill directory must be empty',
    'level_note': 'the murmur3 hash is imported (logged by the harness), not re-specified; combine function is integer addition',
}


def rows(rng, n, keys, nkey):
    out = []
    for _ in range(n):
        k = rng.choice(keys)
        out.append(list(k) + [rng.randrange(0, 9)])
    return out


def gen(tier):
    rng = random.Random(vlib.seed() * 8009 + 7)
    cases = []
    nf = 350 if tier == 'quick' else 20000
    for _ in range(nf):
        nkey = rng.choice([1, 1, 2])
        alpha = rng.choice([5, 8, 12, 30])
        keys = [tuple(rng.randrange(0, 40) for _ in range(nkey)) for _ in range(alpha)]
        ops = []
        for _ in range(rng.choice([1, 2, 3, 4, 6])):
            if rng.random() < 0.15:
                ops.append(['compact'])
            else:
                ops.append(['combine', rows(rng, rng.choice([1, 2, 3, 5, 8, 13]), keys, nkey)])
        cases.append({'id': len(cases) + 1, 'mode': 'frame', 'init': rng.choice([8, 8, 16]), 'scratch': rng.choice([1, 2, 3, 128]),
                      'target': 0, 'ops': ops, 'reads': [1], 'nkey': nkey})
    nc = 100 if tier == 'quick' else 4000
    for j in range(nc):
        nkey = rng.choice([1, 1, 2])
        big = j % 10 == 0
        alpha = rng.choice([3, 8, 40]) if not big else rng.choice([100, 300])
        keys = [tuple(rng.randrange(0, 100000) for _ in range(nkey)) for _ in range(alpha)]
        if rng.random() < 0.5:   # skew
            keys = keys + [keys[0]] * (alpha * 2)
        ops = [['combine', rows(rng, rng.choice([1, 3, 8, 20]) if not big else rng.choice([150, 300]), keys, nkey)]
               for _ in range(rng.choice([1, 2, 4, 8]))]
        cases.append({'id': len(cases) + 1, 'mode': 'combiner', 'init': rng.choice([8, 16, 0]) if not big else 0,
                      'scratch': rng.choice([1, 2, 128]), 'target': rng.choice([1, 2, 3, 4, 1000000]) if not big else rng.choice([1, 50, 300, 1000000]),
                      'ops': ops, 'reads': [rng.choice([1, 2, 5, 128])], 'nkey': nkey})
    # spilled runs longer than one read batch (128 rows) with different key sets: the merge refills a run's
    # buffer while the other runs are part-way through theirs
    for j in range(3 if tier == 'quick' else 40):
        allk = [(k,) for k in rng.sample(range(100000), 700)]
        ops = []
        for _ in range(rng.choice([3, 4, 5])):
            sub = rng.sample(allk, rng.choice([200, 260, 330]))
            ops.append(['combine', [list(k) + [rng.randrange(1, 9)] for k in sub]])
        cases.append({'id': len(cases) + 1, 'mode': 'combiner', 'init': 0, 'scratch': 0, 'target': rng.choice([150, 200, 256]),
                      'ops': ops, 'reads': [rng.choice([5, 128, 300])], 'nkey': 1})
    # many spills, then a descriptor limit while Reader() opens them all at once
    for j in range(2 if tier == 'quick' else 10):
        keys = [(k,) for k in range(300)]
        ops = [['combine', rows(rng, 2, keys, 1)] for _ in range(150)]
        cases.append({'id': len(cases) + 1, 'mode': 'combiner', 'init': 8, 'scratch': 2, 'target': 1, 'ops': ops, 'reads': [128], 'nkey': 1,
                      'fdlimit': rng.choice([40, 64])})
    for c in cases:
        c.setdefault('fdlimit', 0)
        if c['mode'] == 'combiner' and c['init'] == 0:
            c['scratch'] = 0
    return cases


def run(tier, replay=None):
    chk = vlib.Check('C09', tier)
    chk.assumptions = vlib.TRUSTED
    with vlib.WorkCopy('c09', harness=['c09']) as w:
        if replay:
            cases = [json.load(open(os.path.join(replay, 'replay.json')))['payload']['case']]
            cases[0]['id'] = 1
        else:
            cases = gen(tier)
        json.dump(cases, open(w.out('cases.json'), 'w'))
        p = w.gotest('./exec/', 'TestVerifC09$', env={'VERIF_CASES': w.out('cases.json')}, timeout=1500)
        out = w.out('c09_records.ndjson')
        if p.returncode != 0 or not os.path.exists(out):
            raise Inconclusive('harness failed:\n' + (p.stdout or '')[-3000:])
        recs = vlib.read_ndjson(out)
        if len(recs) != len(cases):
            raise Inconclusive('%d records for %d cases' % (len(recs), len(cases)))
        v = vlib.judge(chk, w.root + '/tlc', 'mon', 'HashTable', 'HashTable.cfg', 'c09_records.ndjson', out, 'c09_verdict.json',
                       nrecs=len(recs), timeout=2400)
        chk.cov['traces_validated_against_impl'] = len(recs)
        chk.cov['spilling_sessions'] = sum(1 for r in recs if r.get('spillfiles', 0) > 0)
        chk.cov['tables_grown'] = sum(1 for r in recs if r['mode'] == 'frame' and any(s['table']['cap'] > r['init'] for s in r['steps']))
        byid = {c['id']: c for c in cases}
        rb = {r['id']: r for r in recs}
        for c in cases:
            chk.case({k: c[k] for k in c if k != 'id'}, nontrivial=sum(len(o[1]) for o in c['ops'] if o[0] == 'combine') > 1)
        chk.cov['rule'] = 'frame mode: 1-6 ops (combine of 1-13 rows / compact) over alphabets of 5-30 keys (1 or 2 key columns), initial capacity 8/16, scratch 1/2/3/128; combiner mode: 1-8 frames, spill threshold 1..4/inf (and big skewed inputs), read sizes 1..128; distinct by full case'
        chk.sample({'case': cases[0], 'first_table': rb[cases[0]['id']]['steps'][:1]})
        for b in v['bad']:
            c = byid[b['id']]
            chk.violation({'mode': b['mode'], 'what': b['what'], 'spilled': rb[b['id']].get('spillfiles', 0) > 0},
                          '%s: %s at step %s (init %s scratch %s target %s)' % (b['mode'], b['what'], b['at'], b['init'], b['scratch'], b['target']),
                          {'case': c, 'record': rb[b['id']]})
        good = next((r for r in recs if r['mode'] == 'frame' and r['steps'] and r['steps'][-1]['table']['slots'] and r['id'] not in {b['id'] for b in v['bad']}), None)
        if good and not replay:
            x = json.loads(json.dumps(good)); x['id'] = 1
            x['steps'][-1]['table']['slots'][0][-1] += 1
            vlib.write_ndjson(w.out('self.ndjson'), [x])
            v2 = vlib.judge(vlib.Check('C09', tier), w.root + '/tlc', 'self', 'HashTable', 'HashTable.cfg', 'c09_records.ndjson', w.out('self.ndjson'), 'c09_verdict.json', nrecs=1)
            ok = len(v2['bad']) > 0
            chk.cov['binding_selftest'] = {'ok': ok, 'corruption': 'one slot value of an accepted final table changed'}
            if not ok:
                raise Inconclusive('binding self-test failed')
        return chk.finish()
