"""C05 — keyed redistribution puts each key in one shard, chosen by the key alone."""
import json
import os
import random
import struct
import sys

sys.path.insert(0, '/verif/lib')
import vlib
from vlib import Inconclusive

META = {
    'technique': 'TLA+ Placement.tla (one unknown function part[n]: Key -> shard must explain every observation: OneShardPerKey, ShardIsFunctionOfKeyAndCountAlone, RepartitionPlacesWhereFunctionSays, EveryKeyExactlyOnce/EveryRowExactlyOnce) judges placements recorded from the real default partitioner on frame views (offsets, orders, chunkings, duplicates) and from WriterFuncs behind Reduce/Fold/Cogroup/Reshuffle/Reshard/Repartition in real local and bigmachine sessions with keys spread over producers in different ways, in two separately started OS processes',
    'level_text': 'recorded behaviour judged by a TLA+ specification; exhaustive over the value range for int8/uint8/int16/uint16/bool keys (partitioner level in quick, also end to end in thorough), boundary + random samples for the other 11 registered key types and for multi-column prefixes; shard counts 1..16; every key universe is observed through several frame layouts/offsets/chunk sizes, several producer assignments, both executors, with and without machine combiners, and in two processes, and TLC requires a single function of (key, shard count) to explain all of it; Repartition must place rows where its function says, also when the same slice feeds a differently partitioned consumer in the same invocation; consumers whose key prefix is narrower than their source\'s (directly and with the source reused as the Result of an earlier invocation) and Repartition behind eight producer tasks running concurrently in one process',
    'level_note': 'keys of wide types are sampled; the engine partitions only whole frames today, so non-zero view offsets are exercised at the partitioner level (defaultPartitioner on Frame.Slice views), not end to end; machines are in-process testsystem machines, the two processes run the same binary',
}

INTS = {'int8': (-2**7, 2**7 - 1), 'uint8': (0, 2**8 - 1), 'int16': (-2**15, 2**15 - 1), 'uint16': (0, 2**16 - 1),
        'int32': (-2**31, 2**31 - 1), 'uint32': (0, 2**32 - 1), 'int64': (-2**63, 2**63 - 1), 'uint64': (0, 2**64 - 1),
        'int': (-2**63, 2**63 - 1), 'uint': (0, 2**64 - 1), 'uintptr': (0, 2**64 - 1)}
TYPES = list(INTS) + ['float32', 'float64', 'string', 'bytes', 'bool']
TUPLES = [['int', 'string'], ['string', 'uint8'], ['bool', 'int16'], ['uint8', 'uint8', 'string'], ['float64', 'bytes']]
FOLDABLE = {'string', 'int', 'int64'}


def keys_of(rng, typ, n):
    if typ in INTS:
        lo, hi = INTS[typ]
        s = {lo, hi, 0 if lo <= 0 else lo, 1, hi - 1, lo + 1}
        for b in (8, 16, 31, 32, 33, 48, 63):
            for v in (1 << b, (1 << b) - 1, -(1 << b), (1 << b) + 1):
                if lo <= v <= hi:
                    s.add(v)
        while len(s) < n:
            s.add(rng.randint(lo, hi) if rng.random() < 0.5 else rng.randint(max(lo, -300), min(hi, 300)))
        out = sorted(s)
        rng.shuffle(out)
        return [str(v) for v in out[:max(n, 12)]]
    if typ in ('float32', 'float64'):
        s = ['0', '-0', '1', '-1', '1.5', '+Inf', '-Inf', '5e-324' if typ == 'float64' else '1e-45', '3.4e38', '0.1', '255', '256', '65536']
        while len(s) < n:
            if typ == 'float32':
                v = struct.unpack('f', struct.pack('f', rng.uniform(-1e6, 1e6)))[0]
            else:
                v = rng.uniform(-1e9, 1e9)
            s.append(repr(v))
        return s
    if typ in ('string', 'bytes'):
        s = ['', 'a', 'b', 'ab', 'ba', 'a' * 100, 'é', '世界', 'key-1', 'key-2', ' ', 'A', 'aa', '\x00', '\x00\x00']
        while len(s) < n:
            s.append(''.join(rng.choice('abcxyz01-_ ') for _ in range(rng.randint(1, 12))))
        return list(dict.fromkeys(s))
    if typ == 'bool':
        return ['false', 'true']
    raise ValueError(typ)


def tuple_keys(rng, types, n):
    cols = [keys_of(rng, t, 6 if t != 'bool' else 2) for t in types]
    cols = [[x for x in c if '|' not in x] for c in cols]
    s = set()
    prod = 1
    for c in cols:
        prod *= len(c[:8])
    n = min(n, prod * 2 // 3)
    while len(s) < n:
        s.add('|'.join(rng.choice(c[:8]) for c in cols))
    return sorted(s)


def hash_variants(rng, big):
    vs = [{'kind': 'hash', 'seed': rng.randrange(1 << 30), 'pad': 0, 'chunk': 0, 'dup': False}]
    for _ in range(2 if not big else 1):
        vs.append({'kind': 'hash', 'seed': rng.randrange(1 << 30), 'pad': rng.choice([0, 1, 3, 17]), 'chunk': rng.choice([1, 2, 3, 16, 100]), 'dup': rng.random() < 0.6})
    vs.append({'kind': 'hash', 'seed': rng.randrange(1 << 30), 'pad': rng.choice([1, 2, 5]), 'chunk': 0, 'dup': True})
    return vs


def e2e_variants(rng, types, nshard, nexec, exh=False, par_p=0.2, par_copies=1500):
    vs = []
    single = len(types) == 1
    keyed = ['reshuffle', 'reduce', 'cogroup'] + (['fold'] if single and types[0] in FOLDABLE else [])

    def rep():
        return {'op': 'repartition', 'a': rng.randint(0, 5), 'b': rng.randint(0, 7)}

    def kop():
        return {'op': rng.choice(keyed), 'a': 0, 'b': 0}
    shapes = [lambda: [kop(), rep()], lambda: [rep(), kop()], lambda: [rep(), rep()], lambda: [kop(), kop()],
              lambda: [{'op': 'reshuffle', 'a': 0, 'b': 0}, rep()], lambda: [rep(), {'op': 'reshuffle', 'a': 0, 'b': 0}]]
    for e in nexec:
        ops = rng.choice(shapes)()
        vs.append({'kind': 'e2e', 'seed': rng.randrange(1 << 30), 'exec': e, 'nsrc': nshard, 'ops': ops, 'batch': rng.choice([1, 3, 7, 64]),
                   'machcomb': e == 'bigmachine' and rng.random() < 0.4, 'copies': 1 if exh else rng.choice([1, 2, 3])})
    # a narrower key prefix than the source's, directly and with the source reused as the Result of an earlier invocation
    if len(types) > 1:
        for e in nexec[:1] + (['bigmachine'] if rng.random() < 0.5 else []):
            for reuse in (False, True):
                ops = [{'op': 'reshuffle', 'a': 0, 'b': 0}] + ([rep()] if rng.random() < 0.5 else [])
                vs.append({'kind': 'e2e', 'seed': rng.randrange(1 << 30), 'exec': e, 'nsrc': nshard, 'ops': ops, 'batch': rng.choice([1, 3, 7, 64]),
                           'machcomb': False, 'copies': rng.choice([1, 2]), 'pfx': rng.randint(1, len(types) - 1), 'reuse': reuse})
    elif not exh and rng.random() < 0.3:
        # the full key, with the source reused as a Result
        vs.append({'kind': 'e2e', 'seed': rng.randrange(1 << 30), 'exec': rng.choice(nexec), 'nsrc': nshard, 'ops': [kop(), rep()], 'batch': rng.choice([1, 7, 64]),
                   'machcomb': False, 'copies': rng.choice([1, 2]), 'reuse': True})
    # many producer tasks running concurrently in one process (local executor with Parallelism > 1), many rows:
    # Repartition's function is called from all of them at once
    if not exh and rng.random() < par_p:
        vs.append({'kind': 'e2e', 'seed': rng.randrange(1 << 30), 'exec': 'local', 'nsrc': 8, 'ops': [rep(), rep()], 'batch': 64,
                   'machcomb': False, 'copies': par_copies, 'par': 8})
    # Reshard from a different producer count
    nsrc = rng.choice([x for x in (1, 2, 3, 5) if x != nshard])
    vs.append({'kind': 'e2e', 'seed': rng.randrange(1 << 30), 'exec': 'local', 'nsrc': nsrc, 'ops': [{'op': 'reshard', 'a': 0, 'b': 0}],
               'batch': rng.choice([1, 5, 64]), 'machcomb': False, 'copies': 1 if exh else 2})
    return vs


def gen(tier):
    rng = random.Random(vlib.seed() * 5003 + 5)
    thorough = tier != 'quick'
    cases = []
    shardsets = [1, 2, 3, 4, 5, 7, 8, 16]

    def add(types, nshard, keys, exh, variants):
        cases.append({'id': len(cases) + 1, 'types': types, 'nshard': nshard, 'keys': keys, 'exh': exh, 'variants': variants})
    # exhaustive value ranges
    for t in ['int8', 'uint8', 'bool']:
        for n in (shardsets if thorough else rng.sample(shardsets[1:], 3)):
            add([t], n, [], True, hash_variants(rng, False) + e2e_variants(rng, [t], n, ['local'] + (['bigmachine'] if thorough else []), exh=True))
    for t in ['int16', 'uint16']:
        for n in (shardsets[1:] if thorough else rng.sample(shardsets[1:], 2)):
            add([t], n, [], True, hash_variants(rng, True) + (e2e_variants(rng, [t], n, ['local'], exh=True) if thorough else []))
    # sampled keys of every type and of column tuples
    reps = 3 if thorough else 1
    for _ in range(reps):
        for types in [[t] for t in TYPES if t != 'bool'] + TUPLES:
            for n in rng.sample(shardsets[1:], 2 if thorough else 1) + ([1] if rng.random() < 0.15 else []):
                keys = keys_of(rng, types[0], rng.randint(20, 60)) if len(types) == 1 else tuple_keys(rng, types, rng.randint(15, 40))
                execs = ['local'] + (['bigmachine'] if rng.random() < (0.6 if thorough else 0.35) else []) + (['local'] if rng.random() < 0.5 else [])
                add(types, n, keys, False, hash_variants(rng, False) + e2e_variants(rng, types, n, execs))
    return cases


def merge(cases, r1, r2):
    if len(r1) != len(cases) or len(r2) != len(cases):
        raise Inconclusive('%d/%d records for %d cases' % (len(r1), len(r2), len(cases)))
    out = []
    for a, b in zip(r1, r2):
        if a['id'] != b['id']:
            raise Inconclusive('record order differs between processes')
        rec = {'id': a['id'], 'nshard': a['nshard'], 'nkeys': a.get('nkeys', 0), 'variants': a.get('variants', []) + b.get('variants', [])}
        if 'panic' in a or 'panic' in b:
            rec['panic'] = a.get('panic') or b.get('panic')
        elif a['nkeys'] != b['nkeys']:
            rec['panic'] = 'processes disagree on the number of distinct keys'
        out.append(rec)
    return out


def run(tier, replay=None):
    chk = vlib.Check('C05', tier)
    chk.assumptions = vlib.TRUSTED
    with vlib.WorkCopy('c05', harness=['c05']) as w:
        if replay:
            cases = [json.load(open(os.path.join(replay, 'replay.json')))['payload']['case']]
            cases[0]['id'] = 1
        else:
            cases = gen(tier)
        json.dump(cases, open(w.out('cases.json'), 'w'))
        recs = []
        for proc in ('1', '2'):
            p = w.gotest('./exec/', 'TestVerifC05$', env={'VERIF_CASES': w.out('cases.json'), 'VERIF_PROC': proc}, timeout=3000)
            out = w.out('c05_records_%s.ndjson' % proc)
            if p.returncode != 0 or not os.path.exists(out):
                raise Inconclusive('harness failed:\n' + (p.stdout or '')[-3000:])
            recs.append(vlib.read_ndjson(out))
        merged = merge(cases, recs[0], recs[1])
        path = w.out('c05_records.ndjson')
        vlib.write_ndjson(path, merged)
        v = vlib.judge(chk, w.root + '/tlc', 'mon', 'Placement', 'Placement.cfg', 'c05_records.ndjson', path, 'c05_verdict.json', nrecs=len(merged), timeout=3000,
                       java_opts='-Xss64m')
        byid = {c['id']: c for c in cases}
        mb = {r['id']: r for r in merged}
        nvar = sum(len(r['variants']) for r in merged)
        chk.cov['traces_validated_against_impl'] = nvar
        chk.cov['key_universes'] = len(merged)
        chk.cov['keys_placed'] = sum(r['nkeys'] * len(r['variants']) for r in merged)
        chk.cov['exhaustive_universes'] = sorted({c['types'][0] for c in cases if c['exh']})
        chk.cov['exhaustive_end_to_end'] = sorted({c['types'][0] for c in cases if c['exh'] and any(x['kind'] == 'e2e' for x in c['variants'])})
        chk.cov['types'] = sorted({'+'.join(c['types']) for c in cases})
        chk.cov['shard_counts'] = sorted({c['nshard'] for c in cases})
        chk.cov['ops_end_to_end'] = sorted({x['op'] for r in merged for x in r['variants'] if x['kind'] == 'e2e'})
        for c in cases:
            chk.case({'types': c['types'], 'nshard': c['nshard'], 'keys': c['keys'][:50], 'exh': c['exh'], 'variants': c['variants']}, nontrivial=c['nshard'] > 1)
        small = next((r for r in merged if r['nkeys'] < 80), merged[0])
        chk.sample({'case': {k: byid[small['id']][k] for k in ('types', 'nshard', 'keys')}, 'first_variant': small['variants'][0] if small['variants'] else None})
        for b in v['bad']:
            c = byid[b['id']]
            r = mb[b['id']]
            j = b['variant']
            vv = r['variants'][j - 1] if 0 < j <= len(r['variants']) else {}
            nper = len(r['variants']) // 2 or 1
            cv = None
            detail = ''
            if vv:
                # which keys disagree (for the message only)
                ref = next((x for x in r['variants'] if x['keyed'] and x['n'] == vv['n'] and not x['err']), None)
                if b['what'].startswith('ShardIs') and ref:
                    ks = [k for k in range(r['nkeys']) if vv['mult'][k] > 0 and ref['mult'][k] > 0 and vv['place'][k] != ref['place'][k]][:5]
                    detail = ' keys#%s placed %s, elsewhere %s' % (ks, [vv['place'][k] for k in ks], [ref['place'][k] for k in ks])
                elif b['what'].startswith('Repartition'):
                    ks = [k for k in range(r['nkeys']) if vv['mult'][k] > 0 and vv['place'][k] != vv['want'][k]][:5]
                    detail = ' keys#%s placed %s, function says %s' % (ks, [vv['place'][k] for k in ks], [vv['want'][k] for k in ks])
                elif b['what'] == 'OneShardPerKey':
                    ks = [k for k in range(r['nkeys']) if vv['mult'][k] > 0 and not (0 <= vv['place'][k] < vv['n'])][:5]
                    detail = ' keys#%s place %s (-1 unseen, -2 several shards)' % (ks, [vv['place'][k] for k in ks])
                elif b['what'].startswith('Every'):
                    ks = [k for k in range(r['nkeys']) if vv['count'][k] != ((1 if vv['mult'][k] else 0) if vv['agg'] else vv['mult'][k])][:5]
                    detail = ' keys#%s seen %s times, fed %s' % (ks, [vv['count'][k] for k in ks], [vv['mult'][k] for k in ks])
                if vv.get('err'):
                    detail = ' err=' + vv['err'][:300]
            chk.violation({'what': b['what'], 'types': '+'.join(c['types']), 'kind': vv.get('kind', ''), 'op': vv.get('op', '')},
                          '%s: %s keys, n=%s, %s %s (variant %d of case %d, nshard %d)%s' % (b['what'], '+'.join(c['types']), vv.get('n'), vv.get('kind'), vv.get('op'), j, c['id'], c['nshard'], detail),
                          {'case': c, 'variant_index': j, 'variant': {k: vv[k] for k in vv if k not in ('place', 'count', 'mult', 'want')} if r['nkeys'] > 300 else vv})
        return chk.finish()
