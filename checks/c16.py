"""C16 — invocations reach workers intact, and registry or argument problems fail fast."""
import itertools
import json
import os
import random
import sys

sys.path.insert(0, '/verif/lib')
import vlib
from vlib import Inconclusive

META = {
    'technique': 'TLA+ Invocation.tla (DiffCorrect, LocsDistinct, ArgsIntact, SameSlice) judges recorded results of FuncLocationsDiff over all small list pairs, of execInvocation gob round trips over a parameter-type universe, and of end-to-end runs with arguments / nested Result arguments / an unencodable argument on the bigmachine executor versus the local executor',
    'level_text': 'exhaustive enumeration + recorded behaviour judged by a TLA+ specification: every pair of location lists of length <= 4 over a 3-symbol alphabet (thorough; sampled in quick) goes through the real FuncLocationsDiff and TLC checks the diff is empty iff the lists agree and otherwise projects onto both; Func locations of harness Funcs must be distinct and at their definition; invocations with scalar, string, slice, map, struct, interface-held concrete, nil and Result arguments are gob round-tripped (execInvocation) and run end to end on workers (incl. a diamond of nested Result arguments under an Exclusive Func and an unencodable argument), rows compared with the in-process executor',
    'level_note': 'worker processes are testsystem in-process machines: a registry that really differs between binaries is represented only by the diff function and the locations check; timing bound for "prompt" is 30 s',
}


def gen(tier):
    rng = random.Random(vlib.seed() * 16001 + 11)
    cases = []
    lists = [list(x) for n in range(0, 5) for x in itertools.product(['a.go:1', 'b.go:2', 'c.go:3'], repeat=n)]
    pairs = [(l, r) for l in lists for r in lists]
    if tier == 'quick':
        pairs = rng.sample(pairs, 2500) + [(l, l) for l in rng.sample(lists, 40)]
    for l, r in pairs:
        cases.append({'id': len(cases) + 1, 'mode': 'diff', 'lhs': l, 'rhs': r, 'pick': 0, 'exec': ''})
    cases.append({'id': len(cases) + 1, 'mode': 'locs', 'lhs': [], 'rhs': [], 'pick': 0, 'exec': ''})
    for k in range(6):
        cases.append({'id': len(cases) + 1, 'mode': 'args', 'lhs': [], 'rhs': [], 'pick': k, 'exec': ''})
    for k in list(range(6)) + [100, 101, 102]:
        cases.append({'id': len(cases) + 1, 'mode': 'e2e', 'lhs': [], 'rhs': [], 'pick': k, 'exec': 'bigmachine'})
    return cases


def run(tier, replay=None):
    chk = vlib.Check('C16', tier)
    chk.assumptions = vlib.TRUSTED
    with vlib.WorkCopy('c16', harness=['c16']) as w:
        if replay:
            cases = [json.load(open(os.path.join(replay, 'replay.json')))['payload']['case']]
            cases[0]['id'] = 1
        else:
            cases = gen(tier)
        json.dump(cases, open(w.out('cases.json'), 'w'))
        p = w.gotest('./exec/', 'TestVerifC16$', env={'VERIF_CASES': w.out('cases.json')}, timeout=1800)
        out = w.out('c16_records.ndjson')
        if p.returncode != 0 or not os.path.exists(out):
            raise Inconclusive('harness failed:\n' + (p.stdout or '')[-3000:])
        recs = vlib.read_ndjson(out)
        if len(recs) != len(cases):
            raise Inconclusive('%d records for %d cases' % (len(recs), len(cases)))
        v = vlib.judge(chk, w.root + '/tlc', 'mon', 'Invocation', 'Invocation.cfg', 'c16_records.ndjson', out, 'c16_verdict.json', nrecs=len(recs), timeout=2400)
        byid = {c['id']: c for c in cases}
        rb = {r['id']: r for r in recs}
        chk.cov['traces_validated_against_impl'] = len(recs)
        chk.cov['diff_pairs'] = sum(1 for c in cases if c['mode'] == 'diff')
        chk.cov['exhaustive'] = tier == 'thorough'
        for c in cases:
            chk.case({k: c[k] for k in c if k != 'id'}, nontrivial=c['mode'] != 'diff' or c['lhs'] != c['rhs'])
        chk.cov['rule'] = 'diff: all pairs of lists of length 0-4 over 3 symbols (14641 pairs; 2500 sampled in quick); args/e2e: 6 argument lists over the type universe, nested-Result diamond with Exclusive join, *Result parameter, unencodable argument'
        chk.sample({'diff_case': cases[0], 'diff': recs[0].get('diff')})
        e2e = next((r for r in recs if r['mode'] == 'e2e'), None)
        if e2e:
            chk.sample({'e2e': {k: e2e[k] for k in ('pick', 'rows', 'err', 'ms')}})
        for b in v['bad']:
            c = byid[b['id']]
            r = rb[b['id']]
            chk.violation({'mode': b['mode'], 'what': b['what'], 'pick': b['pick'] if b['mode'] != 'diff' else ''},
                          '%s: %s (case %s) -> %s' % (b['mode'], b['what'], json.dumps(c), json.dumps({k: r[k] for k in r if k in ('diff', 'err', 'rows', 'local_rows', 'orig', 'dec', 'found', 'dups', 'ms')})[:400]),
                          {'case': c, 'record': r})
        return chk.finish()
