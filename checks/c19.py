"""C19 — concurrent runs in a session are race-free and each gets its correct result."""
import importlib.util
import json
import os
import random
import re
import sys

sys.path.insert(0, '/verif/lib')
sys.path.insert(0, '/verif/checks')
import vlib
import execx
import progs
from vlib import Inconclusive

META = {
    'technique': 'TLA+ Eval.tla with two evaluations sharing tasks (exhaustive) + EvalGen two-evaluation schedules replayed gated and free-running into the real Eval, judged by EvalMon.tla; concurrent Run/scan/discard scenarios in real sessions judged by ProgMon.tla; race detector on the same drivers in the thorough tier; worker side of a shared task: Worker.tla (concurrent Worker.Run requests, cancellation, failure, Discard) checked exhaustively and recorded histories of the real worker.Run/Discard judged by WorkerMon.tla (OneExecution, NoRunDuringDiscard, ReplyOk, Returns); executor level: two invocations consuming one result concurrently with a racing Discard in real bigmachine sessions, judged by ExecMon.tla and validated against the design model Exec.tla by ExecTrace.tla',
    'level_text': 'model_checking: all interleavings of two evaluations sharing tasks are explored on small graphs (single runner, awaited by the others, success only when done, never stuck); TLC-generated two-evaluation schedules are replayed into exec.Eval and the traces judged by the monitors; sets of 2-4 programs sharing result arguments are started concurrently in real sessions on both executors under varied GOMAXPROCS and each run is judged against the value it would have alone',
    'level_note': '"no data races" is a Go-memory-model clause that TLA+ cannot decide: the Go race detector run over the same concurrent drivers (thorough tier) is auxiliary evidence for that clause only',
}


def gen_scenarios(tier):
    rng = random.Random(vlib.seed() * 3001 + 9)
    scs = []
    n = 90 if tier == 'quick' else 1200
    for _ in range(n):
        ex = 'bigmachine' if rng.random() < 0.4 else 'local'
        steps, kinds, names = [], {}, []
        for b in range(rng.choice([1, 2])):
            g = progs.Gen(rng)
            p, k = g.program(rng.choice([0, 1, 2]), taps='out')
            if k[0] == 'weak':
                continue
            nm = 'b%d' % b
            steps.append(progs.step_run(nm, p))
            kinds[nm] = k
            names.append(nm)
        if not names:
            continue
        if rng.random() < 0.3:
            steps.append(progs.step_discard(rng.choice(names)))
        groups = []
        for lane in range(rng.choice([2, 3, 4])):
            grp = []
            for s in range(rng.choice([1, 2])):
                c = rng.random()
                if c < 0.7:
                    nargs = rng.choice([0, 1, 1, 2])
                    args = [rng.choice(names) for _ in range(nargs)]
                    g = progs.Gen(rng, nargs=nargs, argkinds=[kinds[a] for a in args])
                    p, k = g.program(rng.choice([1, 2, 3]), taps='out')
                    if k[0] == 'weak':
                        continue
                    nm = 'l%d_%d' % (lane, s)
                    grp.append(progs.step_run(nm, p, args))
                    grp.append(progs.step_scan(nm))
                elif c < 0.9:
                    grp.append(progs.step_scan(rng.choice(names)))
                else:
                    grp.append(progs.step_discard(rng.choice(names)))
            if grp:
                groups.append(grp)
        if len(groups) >= 2:
            steps.append(progs.step_par(groups))
        for nm in names:
            steps.append(progs.step_scan(nm))
        scs.append(progs.scenario(len(scs) + 1, steps, exec_=ex, parallelism=rng.choice([0, 1, 4]),
                                  machprocs=rng.choice([1, 2, 4]) if ex == 'bigmachine' else 0,
                                  gomaxprocs=0, timeout_s=90))
    # dedicated: a result with a combining shuffle is recomputed by one lane while another lane discards it
    # (at most 3 discards, so no task can be lost 5 times in a row): the run must recompute, not fail
    for k in range(10 if tier == 'quick' else 120):
        g = progs.Gen(rng)
        n = rng.choice([400, 1200, 3000])
        i = g.add(progs.N('const', nshard=rng.choice([4, 8]), rows=[[rng.randrange(0, 50), rng.randrange(0, 9)] for _ in range(n)]), 'eo', 4)
        j = g.add(progs.N(rng.choice(['reduce', 'reduce', 'reduce', 'fold']), **{'in': [i]}, f='slowsum'), 'bag', g.nodes[i]['nshard'])
        base = {'nodes': g.nodes, 'out': j, 'taps': []}
        g2 = progs.Gen(rng, nargs=1, argkinds=[('bag', g.nodes[i]['nshard'])])
        a = g2.add(progs.N('arg', arg=0), 'bag', g.nodes[i]['nshard'])
        m = g2.add(progs.N('map', **{'in': [a]}, f='inc'), 'bag', g.nodes[i]['nshard'])
        use = {'nodes': g2.nodes, 'out': m, 'taps': []}
        steps = [progs.step_run('b0', base), progs.step_scan('b0'), progs.step_discard('b0'),
                 progs.step_par([[progs.step_run('u', use, ['b0']), progs.step_scan('u')],
                                 sum([[{'do': 'sleep', 'as': '', 'res': '', 'args': [], 'n': rng.choice([2, 5, 10, 20])}, progs.step_discard('b0')]
                                      for _ in range(rng.choice([2, 3]))], [])]),
                 progs.step_run('u2', use, ['b0']), progs.step_scan('u2')]
        scs.append(progs.scenario(len(scs) + 1, steps, exec_='local' if k % 3 else 'bigmachine', parallelism=1 if k % 2 else 2,
                                  machprocs=1, timeout_s=90))
    # dedicated: a Discard that its caller has given up on (cancelled context: its calls to the workers fail) runs
    # alongside, or just before, a run that reuses the result; nothing may be left waiting forever
    for k in range(12 if tier == 'quick' else 60):
        g = progs.Gen(rng)
        p0, k0 = g.program(rng.choice([0, 1, 2]), taps=[])
        if k0[0] == 'weak' or any(n['op'] in ('scanreader', 'head') for n in p0['nodes']):
            continue
        p0['taps'] = []
        g2 = progs.Gen(rng, nargs=1, argkinds=[k0])
        a = g2.add(progs.N('arg', arg=0), k0[0], k0[1])
        m = g2.add(progs.N('map', **{'in': [a]}, f='inc'), k0[0], k0[1])
        use = {'nodes': g2.nodes, 'out': m, 'taps': []}
        dc = dict(progs.step_discard('b0'), cancelled=True)
        arm = {'do': 'kills', 'as': '', 'res': '', 'args': [], 'kills': [{'method': 'Worker.Discard', 'ordinal': o, 'phase': 'fail', 'bytes': 0} for o in range(1, 9)]}
        if k % 2:
            steps = [progs.step_run('b0', p0), arm, dc, progs.step_run('u', use, ['b0']), progs.step_scan('u'), progs.step_scan('b0')]
        else:
            steps = [progs.step_run('b0', p0), arm, progs.step_par([[progs.step_run('u', use, ['b0']), progs.step_scan('u')], [dc]]),
                     progs.step_run('u2', use, ['b0']), progs.step_scan('u2')]
        scs.append(progs.scenario(len(scs) + 1, steps, exec_='bigmachine', parallelism=2, machprocs=2, timeout_s=25, interpose=True))
    return scs


def worker_cases(tier):
    rng = random.Random(vlib.seed() * 9001 + 19)
    cases = [{'ops': [['start', 2], ['start', 1], ['cancel', 1], ['start', 3], ['release', 'ok'], ['release', 'ok']]},
             {'ops': [['start', 1], ['start', 2], ['release', 'ok']]},
             {'ops': [['start', 1], ['release', 'fail'], ['start', 2], ['release', 'ok'], ['discard'], ['start', 3], ['release', 'ok']]}]
    for _ in range(40 if tier == 'quick' else 600):
        ops, nreq = [], 0
        for _ in range(rng.randint(3, 9)):
            c = rng.random()
            if c < 0.4 or nreq == 0:
                nreq += 1
                ops.append(['start', nreq])
            elif c < 0.6:
                ops.append(['cancel', rng.randint(1, nreq)])
            elif c < 0.9:
                ops.append(['release', rng.choice(['ok', 'ok', 'fail'])])
            else:
                ops.append(['discard'])
        cases.append({'ops': ops})
    for i, c in enumerate(cases):
        c['id'] = i + 1
    return cases


def worker_stage(chk, w, wdir, tier, replay):
    for cfg in ('Worker_fixed.cfg',):
        r = vlib.tlc(wdir + '/worker', 'Worker', cfg, workers=2, timeout=300)
        vlib.tlc_must_parse(r, cfg)
        chk.add_tlc('exhaustive ' + cfg, r)
        if r.violated or not r.ok:
            raise Inconclusive('design model %s: %s' % (cfg, r.violated or r.error))
    if replay:
        cases = [json.load(open(os.path.join(replay, 'replay.json')))['payload']['wcase']]
        cases[0]['id'] = 1
    else:
        cases = worker_cases(tier)
    # the worker harness lives in its own work copy: it shares package exec with the other harness files
    with vlib.WorkCopy('c19w', harness=['worker']) as ww:
        json.dump(cases, open(ww.out('cases.json'), 'w'))
        p = ww.gotest('./exec/', 'TestVerifWorker$', env={'VERIF_CASES': ww.out('cases.json')}, timeout=1800)
        out = ww.out('worker_records.ndjson')
        if p.returncode != 0 or not os.path.exists(out):
            raise Inconclusive('worker harness failed:\n' + (p.stdout or '')[-3000:])
        recs = vlib.read_ndjson(out)
        v = vlib.judge(chk, wdir, 'workermon', 'WorkerMon', 'WorkerMon.cfg', 'worker_records.ndjson', out, 'worker_verdict.json', nrecs=len(recs))
    byid = {c['id']: c for c in cases}
    rb = {r['id']: r for r in recs}
    chk.cov['worker_histories'] = len(recs)
    chk.cov['worker_events'] = sum(len(r.get('events', [])) for r in recs)
    chk.cov['traces_validated_against_impl'] += len(recs)
    for c in cases:
        chk.case({'worker_ops': c['ops']}, nontrivial=len(c['ops']) >= 3)
    chk.sample({'worker_case': cases[0]['ops'], 'events': rb[cases[0]['id']].get('events', [])[:12]})
    seen = set()
    for b in v['bad']:
        if (b['id'], b['what']) in seen:
            continue
        seen.add((b['id'], b['what']))
        c = byid[b['id']]
        kinds = sorted({o[0] for o in c['ops']})
        chk.violation({'what': b['what'], 'layer': 'worker', 'needs': ','.join(k for k in kinds if k in ('cancel', 'discard'))},
                      'worker: %s at event %s of history %s' % (b['what'], b['seq'], json.dumps(c['ops'])),
                      {'wcase': c, 'events': rb[b['id']].get('events', [])})


def run(tier, replay=None):
    chk = vlib.Check('C19', tier)
    chk.assumptions = vlib.TRUSTED
    spec = importlib.util.spec_from_file_location('c03', vlib.V + '/checks/c03.py')
    c03 = importlib.util.module_from_spec(spec)
    spec.loader.exec_module(c03)
    spec = importlib.util.spec_from_file_location('c12', vlib.V + '/checks/c12.py')
    c12 = importlib.util.module_from_spec(spec)
    spec.loader.exec_module(c12)
    with vlib.WorkCopy('c19', harness=['prog', 'c03', 'c12x']) as w:
        wdir = w.root + '/tlc'
        if replay and 'xcase' in json.load(open(os.path.join(replay, 'replay.json')))['payload']:
            execx.run(chk, w, tier, replay_case=json.load(open(os.path.join(replay, 'replay.json')))['payload']['xcase'])
            return chk.finish()
        if replay and 'wcase' in json.load(open(os.path.join(replay, 'replay.json')))['payload']:
            worker_stage(chk, w, wdir, tier, replay)
            return chk.finish()
        # (1) design: two evaluations sharing tasks, exhaustive
        cfgs = [('EvalMC_two_quick.cfg', 600)] if tier == 'quick' else [('EvalMC_small2.cfg', 2400)]
        if not replay:
            for cfg, to in cfgs:
                r = vlib.tlc(wdir + '/mc', 'EvalMC', cfg, workers=vlib.NCPU, timeout=to)
                vlib.tlc_must_parse(r, cfg)
                chk.add_tlc('exhaustive ' + cfg, r)
                if r.violated or not r.ok:
                    raise Inconclusive('design model %s: %s\n%s' % (cfg, r.violated or r.error, r.out[-1500:]))
        # (2) two-evaluation schedules, gated and free-running, judged by EvalMon
        scheds = []
        if not replay:
            d = wdir + '/gen2'
            os.makedirs(d + '/gen', exist_ok=True)
            num = 120 if tier == 'quick' else 1500
            r = vlib.tlc(d, 'EvalGen', 'EvalGen_two.cfg', simulate='num=%d' % num, depth=70, workers=1, seedv=vlib.seed() * 31 + 3, timeout=900)
            import glob
            seen = set()
            for f in sorted(glob.glob(d + '/gen/b*.json')):
                b = json.load(open(f))
                for free in (False, True):
                    sc = {'tasks': sorted(b['tasks']), 'deps': b['deps'], 'phase': b['phase'], 'roots': b['roots'],
                          'init': b['init'], 'steps': b['steps'], 'free': free}
                    key = json.dumps(sc, sort_keys=True)
                    if key in seen or not b['steps']:
                        continue
                    seen.add(key)
                    sc['id'] = 'two-%s-%s' % (os.path.basename(f)[:-5], 'free' if free else 'gated')
                    scheds.append(sc)
            json.dump(scheds, open(w.out('scheds.json'), 'w'))
            p = w.gotest('./exec/', 'TestVerifC03$', env={'VERIF_SCHEDS': w.out('scheds.json')}, timeout=1500)
            tp = w.out('c03_traces.ndjson')
            if p.returncode != 0 or not os.path.exists(tp):
                raise Inconclusive('replay harness failed:\n' + (p.stdout or '')[-3000:])
            recs = vlib.read_ndjson(tp)
            verdict, _ = c03.judge(chk, wdir, tp, 'mon')
            if verdict['n'] != len(recs):
                raise Inconclusive('EvalMon consumed %d of %d records' % (verdict['n'], len(recs)))
            chk.cov['eval_traces'] = len(scheds)
            c03.drift_check(chk, w, wdir, recs, scheds, tag='two')
            seen_v = set()
            for b in verdict['bad']:
                sc = scheds[b['tr'] - 1]
                key = (b['tr'], b['mon'], b.get('cause', ''))
                if key in seen_v:
                    continue
                seen_v.add(key)
                if b['mon'] == 'NeededOnly' and b.get('cause') == 'lost-return-reenqueue':
                    continue  # C03's known finding, reported there
                chk.violation({'monitor': b['mon'], 'cause': b.get('cause', ''), 'layer': 'eval'},
                              'monitor %s failed at seq %s (e=%s t=%s) in two-evaluation schedule %s' % (b['mon'], b['seq'], b.get('e'), b.get('t'), sc['id']),
                              {'schedule': sc, 'monitor': b})
            for sc in scheds[:2]:
                chk.sample({'schedule': sc})
        # (3) concurrent sessions
        if replay:
            scs = [json.load(open(os.path.join(replay, 'replay.json')))['payload']['scenario']]
            scs[0]['id'] = 1
        else:
            scs = gen_scenarios(tier)
        gmp = [0, 1, 2] if tier == 'quick' else [0, 1, 2, 16]
        for k, s in enumerate(scs):
            s['gomaxprocs'] = 0
        recs, path = progs.execute(w, scs, workers=6)
        v = progs.judge(chk, w, path, len(recs))
        c12.report(chk, scs, recs, v)
        chk.cov['traces_validated_against_impl'] = len(recs) + len(scheds)
        # perturbed schedules: the same scenarios under GOMAXPROCS=1 (run one at a time)
        sub = scs[: (25 if tier == 'quick' else 300)]
        for s in sub:
            s['gomaxprocs'] = 1
        recs1, path1 = progs.execute(w, sub, workers=1, tag='gmp1')
        v1 = progs.judge(chk, w, path1, len(recs1), name='progmon_gmp1')
        c12.report(chk, sub, recs1, v1)
        chk.cov['traces_validated_against_impl'] += len(recs1)
        if tier == 'thorough' and not replay:
            for s in sub:
                s['gomaxprocs'] = 0
            json.dump(sub, open(w.out('race_cases.json'), 'w'))
            p = w.gotest('./verifprog/', 'TestVerifProg$', env={'VERIF_CASES': w.out('race_cases.json'), 'VERIF_WORKERS': 4},
                         timeout=2400, race=True)
            races = len(re.findall(r'WARNING: DATA RACE', p.stdout or ''))
            chk.cov['race_detector'] = {'scenarios': len(sub), 'reports': races}
            if races:
                m = re.search(r'WARNING: DATA RACE(.*?)(?:==================)', p.stdout, re.S)
                top = re.findall(r'\n  (\S+)\(', (m.group(1) if m else ''))[:2]
                chk.violation({'what': 'DataRace', 'at': '/'.join(top)}, 'race detector reported %d data race(s); first at %s' % (races, top),
                              {'excerpt': (m.group(0) if m else '')[:3000]})
        # (4) the worker's side of a shared task: concurrent Worker.Run requests for one task, cancellations,
        # failures and Discard, on a real worker (design model Worker.tla, exhaustive; monitor WorkerMon.tla)
        if not replay:
            worker_stage(chk, w, wdir, tier, replay)
            # (5) executor level: two invocations consuming one result at the same time (they share its tasks), with a
            # Discard racing with them; ExecMon judges the outcomes, ExecTrace validates the events against Exec.tla
            execx.run(chk, w, tier, kinds=('conc',), mc_only=('ExecMC_fixed.cfg',))
        for s in scs:
            chk.case({'steps': s['steps'], 'exec': s['exec']}, nontrivial=True)
        for s in scheds:
            chk.case({k: s[k] for k in ('tasks', 'deps', 'roots', 'init', 'steps', 'free')}, nontrivial=len(s['steps']) >= 3)
        chk.cov['rule'] = 'two-evaluation schedules from EvalGen (gated and free-running) + scenarios with 2-4 concurrent lanes of run/scan/discard sharing result arguments, default GOMAXPROCS and GOMAXPROCS=1; distinct by full case'
        chk.sample({'scenario': scs[0]})
        return chk.finish()
