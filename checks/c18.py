"""C18 — operator constructors accept exactly the documented type schemas."""
import itertools
import json
import os
import random
import sys

sys.path.insert(0, '/verif/lib')
import vlib
from vlib import Inconclusive

META = {
    'technique': 'TLA+ Typecheck.tla states each constructor\'s documented schema (Accepts) and result type (Result) over an abstract type universe; every cell of the cross product slice types x function signatures is one real constructor call whose outcome TLC judges',
    'level_text': 'exhaustive (thorough) / sampled (quick) enumeration judged by a TLA+ specification: for Map, Filter, Flatmap, Fold, Reduce, Repartition, Reshuffle, Reshard, Head, Prefixed, Cogroup, ReaderFunc and WriterFunc the cross product of a finite universe of input slice types (column types int/int64/string/bool/float64/struct/[]int, key prefixes 1-2, shard counts) and function signatures (arity 0-4, parameter types incl. interface and context, variadic forms, vectorised and plain results, non-functions) is executed; accepted iff Accepts holds, rejections must be typecheck errors carrying the caller\'s file:line, accepted calls must return the documented column types, prefix and shard count',
    'level_note': 'the type universe is finite and named; AssignableTo is modelled as equality or interface{}; Scan and Const are not in the matrix',
}

T = ['int', 'string', 'bool', '[]int', 'iface', 'pair']
SLICES = [(['int'], 1), (['string'], 1), (['int', 'string'], 1), (['string', 'int'], 1), (['int', 'int'], 1), (['int', 'string'], 2),
          (['pair', 'int'], 1), (['[]int', 'int'], 1), (['int', 'bool', 'string'], 1), (['int', 'bool', 'string'], 2), (['float64', 'int'], 1),
          (['int64', 'int'], 1), (['bool', 'int'], 1)]
OUTS = [[], ['int'], ['bool'], ['string'], ['[]int'], ['int', 'string'], ['[]int', '[]string'], ['bool', 'bool'], ['error'], ['int', 'error'], ['[]int', 'int']]


def sigs_generic():
    out = []
    for n in (0, 1, 2, 3):
        for ins in itertools.product(T, repeat=n):
            for o in OUTS:
                out.append({'ins': list(ins), 'outs': o, 'variadic': False, 'notfunc': False})
    for n in (1, 2):
        for ins in itertools.product(['int', 'string', 'bool', 'iface'], repeat=n):
            ins = list(ins)
            last = {'int': '[]int', 'string': '[]string', 'bool': '[]bool'}.get(ins[-1])
            if not last:
                continue
            for o in (['int'], ['bool'], ['[]int']):
                out.append({'ins': ins[:-1] + [last], 'outs': o, 'variadic': True, 'notfunc': False})
    out.append({'ins': [], 'outs': [], 'variadic': False, 'notfunc': True})
    return out


def vec(t):
    return {'int': '[]int', 'string': '[]string', 'bool': '[]bool', 'pair': '[]pair', '[]int': '[][]int'}.get(t, '[]int')


def gen(tier):
    rng = random.Random(vlib.seed() * 15013 + 9)
    cases = []

    def add(ctor, slices, sig, n=0):
        cases.append({'id': len(cases) + 1, 'ctor': ctor, 'slices': [{'cols': c, 'prefix': p, 'nshard': ns} for c, p, ns in slices], 'sig': sig, 'n': n})

    G = sigs_generic()
    nosig = {'ins': [], 'outs': [], 'variadic': False, 'notfunc': False}
    for ctor in ('map', 'filter', 'flatmap'):
        for cols, p in SLICES:
            for g in G:
                add(ctor, [(cols, p, 2)], g)
            # with an optional leading context parameter
            for g in rng.sample(G, 40):
                add(ctor, [(cols, p, 2)], dict(g, ins=['ctx'] + g['ins']))
    for cols, p in SLICES:
        # fold: func(acc, t2..tn) acc
        for acc in ('int', 'string', '[]int', 'pair'):
            for ins in [[acc] + cols[1:], [acc] + cols, [acc] + cols[p:], cols[1:], [acc], [acc] + ['string'] * (len(cols) - 1), ['ctx', acc] + cols[1:]]:
                for outs in ([acc], ['int'], [], [acc, acc]):
                    add('fold', [(cols, p, 2)], {'ins': ins, 'outs': outs, 'variadic': False, 'notfunc': False})
        add('fold', [(cols, p, 2)], {'ins': [], 'outs': [], 'variadic': False, 'notfunc': True})
        v = cols[-1]
        for ins in ([v, v], [v], [v, v, v], ['int', 'int'], ['string', 'string'], [v, 'iface'], ['ctx', v, v]):
            for outs in ([v], ['int'], [], [v, v], ['string']):
                add('reduce', [(cols, p, 2)], {'ins': ins, 'outs': outs, 'variadic': False, 'notfunc': False})
        add('reduce', [(cols, p, 2)], {'ins': [], 'outs': [], 'variadic': False, 'notfunc': True})
        for ins in (['int'] + cols, cols, ['int'] + cols + ['int'], ['string'] + cols, ['int'] + ['iface'] * len(cols), ['int'] + cols[::-1]):
            for outs in (['int'], ['bool'], [], ['int', 'int']):
                add('repartition', [(cols, p, 3)], {'ins': ins, 'outs': outs, 'variadic': False, 'notfunc': False})
        add('repartition', [(cols, p, 3)], {'ins': [], 'outs': [], 'variadic': False, 'notfunc': True})
        add('reshuffle', [(cols, p, 2)], nosig)
        for n in (1, 2, 5):
            add('reshard', [(cols, p, 2)], nosig, n)
        add('head', [(cols, p, 2)], nosig, 3)
        for n in (-1, 0, 1, 2, 3, 4):
            add('prefixed', [(cols, p, 2)], nosig, n)
        # writerfunc
        good = ['int', 'pair', 'error'] + [vec(c) for c in cols]
        for ins in (good, good[:-1], good + ['[]int'], ['string'] + good[1:], good[:2] + ['int'] + good[3:], good[:3] + cols, ['int', 'int', 'error'] + [vec(c) for c in cols]):
            for outs in (['error'], [], ['int'], ['error', 'error']):
                add('writerfunc', [(cols, p, 2)], {'ins': ins, 'outs': outs, 'variadic': False, 'notfunc': False})
        add('writerfunc', [(cols, p, 2)], {'ins': [], 'outs': [], 'variadic': False, 'notfunc': True})
    # cogroup: pairs and triples of slices
    for a in SLICES:
        add('cogroup', [(a[0], a[1], 2)], nosig)
        for b in SLICES:
            add('cogroup', [(a[0], a[1], 2), (b[0], b[1], 3)], nosig)
    for _ in range(60):
        tr = [rng.choice(SLICES) for _ in range(3)]
        add('cogroup', [(x[0], x[1], rng.choice([1, 2, 4])) for x in tr], nosig)
    # readerfunc
    for ins in (['int', 'pair', '[]int'], ['int', 'pair', '[]int', '[]string'], ['int', 'pair'], ['int'], [], ['string', 'pair', '[]int'],
                ['int', 'pair', 'int'], ['int', 'pair', '[]int', 'int'], ['int', 'int', '[]pair'], ['int', 'pair', '[][]int']):
        for outs in (['int', 'error'], ['int'], [], ['error'], ['error', 'int'], ['int', 'error', 'int'], ['bool', 'error']):
            add('readerfunc', [(['int'], 1, 1)], {'ins': ins, 'outs': outs, 'variadic': False, 'notfunc': False}, 3)
    add('readerfunc', [(['int'], 1, 1)], {'ins': [], 'outs': [], 'variadic': False, 'notfunc': True}, 3)
    if tier == 'quick':
        keep = [c for c in cases if c['ctor'] not in ('map', 'filter', 'flatmap')]
        rest = [c for c in cases if c['ctor'] in ('map', 'filter', 'flatmap')]
        cases = keep + rng.sample(rest, 6000)
        for k, c in enumerate(cases):
            c['id'] = k + 1
    return cases


def run(tier, replay=None):
    chk = vlib.Check('C18', tier)
    chk.assumptions = vlib.TRUSTED
    with vlib.WorkCopy('c18', harness=['c18']) as w:
        if replay:
            cases = [json.load(open(os.path.join(replay, 'replay.json')))['payload']['case']]
            cases[0]['id'] = 1
        else:
            cases = gen(tier)
        json.dump(cases, open(w.out('cases.json'), 'w'))
        p = w.gotest('.', 'TestVerifC18$', env={'VERIF_CASES': w.out('cases.json')}, timeout=1800)
        out = w.out('c18_records.ndjson')
        if p.returncode != 0 or not os.path.exists(out):
            raise Inconclusive('harness failed:\n' + (p.stdout or '')[-3000:])
        recs = vlib.read_ndjson(out)
        if len(recs) != len(cases):
            raise Inconclusive('%d records for %d cases' % (len(recs), len(cases)))
        v = vlib.judge(chk, w.root + '/tlc', 'mon', 'Typecheck', 'Typecheck.cfg', 'c18_records.ndjson', out, 'c18_verdict.json', nrecs=len(recs), timeout=3000)
        byid = {c['id']: c for c in cases}
        rb = {r['id']: r for r in recs}
        chk.cov['traces_validated_against_impl'] = len(recs)
        chk.cov['accepted'] = sum(1 for r in recs if r['outcome'] == 'ok')
        chk.cov['rejected_with_typecheck_error'] = sum(1 for r in recs if r['outcome'] == 'typecheck')
        chk.cov['exhaustive'] = tier == 'thorough'
        chk.cov['per_constructor'] = {k: sum(1 for c in cases if c['ctor'] == k) for k in sorted(set(c['ctor'] for c in cases))}
        for c in cases:
            chk.case({k: c[k] for k in c if k != 'id'}, nontrivial=True)
        chk.cov['rule'] = 'cross product of the slice-type universe and the signature universe per constructor (all cells in thorough; map/filter/flatmap sampled to 6000 cells in quick); distinct by (constructor, slice types, signature, parameter)'
        chk.sample({'case': cases[0], 'record': {k: recs[0][k] for k in ('outcome', 'locok', 'rcols', 'rprefix', 'rnshard')}})
        acc = next((r for r in recs if r['outcome'] == 'ok'), None)
        if acc:
            chk.sample({'accepted_case': byid[acc['id']], 'result': [acc['rcols'], acc['rprefix'], acc['rnshard']]})
        for b in v['bad']:
            c = byid[b['id']]
            r = rb[b['id']]
            ident = {'ctor': b['ctor'], 'what': b['what'], 'variadic': c['sig']['variadic'], 'nouts': len(c['sig']['outs']), 'prefix': c['slices'][0]['prefix'],
                     'notfunc': c['sig']['notfunc']}
            chk.violation(ident, '%s: %s for slices %s sig %s n=%s -> outcome %s %s' % (b['ctor'], b['what'], [(x['cols'], x['prefix']) for x in c['slices']],
                          c['sig'], c['n'], r['outcome'], r.get('panic', r.get('loc', ''))[:120]), {'case': c, 'record': r})
        return chk.finish()
