"""Executor-level sessions judged with Exec.tla (used by C12; the kill histories also speak for C02/C19).

Exec.tla is the design model of bigmachineExecutor.Run / Discard / sliceMachine.Assign, Discard, Go (machine monitor);
ExecMC_*.cfg check it exhaustively (invariants NoOrphanRunning, OkIsOwned, OwnedIsStored; liveness Terminates), including
the variants that are *expected* to fail (the code as found, a repair that does not work, a seeded reordering): those runs
show the invariants are not vacuous. harness/c12x drives real sessions -- among them the schedule of the counterexample
TLC finds for the code as found, reproduced with a gate at the BmOkSet hook -- and records the executor's hook events;
ExecMon.tla judges the outcomes (VIOLATION), ExecTrace.tla validates the events against Exec.tla's actions (DRIFT)."""
import json
import os
import random
import sys

sys.path.insert(0, '/verif/lib')
import vlib
from vlib import Inconclusive

MC = [  # cfg, expectation
    ('ExecMC_fixed.cfg', None),
    ('ExecMC_live.cfg', None),
    ('ExecMC_faultyb.cfg', None),
    ('ExecMC_livefaulty.cfg', None),
    ('ExecMC_asis.cfg', 'NoOrphanRunning'),
    ('ExecMC_restore.cfg', 'OkIsOwned'),
    ('ExecMC_assignfirst.cfg', 'OkIsOwned'),
]
MC_THOROUGH = [('ExecMC_fixed3.cfg', None)]


def model_check(chk, wdir, tier, only=None):
    for cfg, expect in [x for x in MC if only is None or x[0] in only] + (MC_THOROUGH if tier != 'quick' else []):
        r = vlib.tlc(wdir + '/execmc', 'ExecMC', cfg, workers=vlib.NCPU, timeout=3000)
        vlib.tlc_must_parse(r, cfg)
        chk.add_tlc('exhaustive ' + cfg, r)
        if expect is None:
            if r.violated or not r.ok:
                raise Inconclusive('design model %s: %s' % (cfg, r.violated or r.error))
        elif expect not in (r.violated or []):
            raise Inconclusive('design model %s: expected a counterexample to %s (the variant is known to be wrong), got %s' % (cfg, expect, r.violated or 'none'))
    chk.cov['exec_model_variants_refuted'] = [c for c, e in MC if e and (only is None or c in only)]


def gen(tier, kinds=('plain', 'window', 'kill', 'fatal', 'conc'), nkill=8):
    rng = random.Random(vlib.seed() * 7001 + 12 + len(kinds))
    cases = []

    def add(**kw):
        kw.setdefault('procs', 1)
        kw.setdefault('gate', 0)
        kw.setdefault('killev', '')
        kw.setdefault('killn', 0)
        if kw['kind'] not in kinds:
            return
        kw['id'] = len(cases) + 1
        cases.append(kw)
    for nshard in (1, 2, 3):
        add(kind='plain', nshard=nshard, discard=False)
        add(kind='plain', nshard=nshard, discard=True)
    # the window between "marked OK" and "assigned to its machine" of every root task, with a Discard in it
    for nshard in (1, 2, 3):
        for gate in range(nshard):
            add(kind='window', nshard=nshard, gate=gate, discard=True)
    add(kind='window', nshard=2, gate=0, discard=False)
    # user code that fails persistently; afterwards a healthy program in the same session
    for nshard in (1, 2, 3):
        add(kind='fatal', nshard=nshard, discard=False)
    # two invocations consume the result concurrently, without and with a Discard racing with them (after `gate` ms)
    for nshard, dis, delay in [(2, False, 0), (2, True, 0), (3, True, 1), (2, True, 3), (3, True, 6)] + ([(2, True, d) for d in (2, 4, 8, 12)] if tier != 'quick' else []):
        add(kind='conc', nshard=nshard, discard=dis, gate=delay)
    # a machine dies at an executor event
    evs = ['BmGrant', 'BmCall', 'BmReply', 'BmSetLoc', 'BmOkSet']
    pts = [(e, n) for e in evs for n in range(1, 5)]
    if tier == 'quick':
        pts = rng.sample(pts, nkill)
    else:
        pts = pts + [(e, n) for e in evs for n in range(5, 9)]
    for e, n in pts:
        add(kind='kill', nshard=2, killev=e, killn=n, discard=rng.random() < 0.4, procs=rng.choice([1, 1, 2]))
    return cases


def flatten(recs):
    hdr = {'ev': 'Header', 'tasks': [], 'deps': {}, 'roots': [], 'machs': [], 'faulty': [], 'seq': 0}
    out = []
    for r in recs:
        if 'panic' in r or not r.get('events'):
            continue
        sid = 's%d' % r['id']
        T = lambda n: sid + '/' + n            # noqa: E731
        M = lambda k: '%s/m%d' % (sid, k)      # noqa: E731
        roots, machs, evs = [], set(), []
        for e in r['events']:
            if e['ev'] == 'HEnd':
                break
            if e['ev'] == 'Graph':
                for x in e.get('tasks') or []:
                    hdr['tasks'].append(T(x['t']))
                    hdr['deps'][T(x['t'])] = [T(d) for d in x['deps']]
                roots += [T(x) for x in e['roots']]
                continue
            e = dict(e)
            if 't' in e:
                e['t'] = T(e['t'])
            if 'm' in e:
                machs.add(e['m'])
                e['m'] = M(e['m'])
            if 'machines' in e:
                machs |= set(e['machines'])
                e['machines'] = [M(k) for k in e['machines']]
            if 'tasks' in e:
                e['tasks'] = [T(x) for x in e['tasks']]
            e['s'] = r['id']
            evs.append(e)
        # tasks whose user code fails: those the executor received a fatal reply for
        hdr['faulty'] += sorted({e['t'] for e in evs if e['ev'] == 'BmReply' and e.get('err') == 'fatal'})
        hdr['roots'] += sorted(set(roots))
        hdr['machs'] += [M(k) for k in sorted(machs)]
        out.append({'ev': 'Begin', 's': r['id'], 'seq': 0, 'dies': sorted({e['m'] for e in evs if e['ev'] == 'SmLost'})})
        out += evs
    return [hdr] + out


def conformance_one(chk, wdir, tag, recs):
    d = '%s/xconf_%s' % (wdir, tag)
    os.makedirs(d, exist_ok=True)
    vlib.write_ndjson(d + '/c12x_conf.ndjson', recs)
    if os.path.exists(d + '/c12x_conf.json'):
        os.remove(d + '/c12x_conf.json')
    r = vlib.tlc(d, 'ExecTrace', 'ExecTrace.cfg', workers=1, timeout=1500)
    chk.add_tlc('ExecTrace ' + tag, r)
    if not os.path.exists(d + '/c12x_conf.json'):
        return None, r
    return json.load(open(d + '/c12x_conf.json')), r


def drift_check(chk, wdir, recs):
    flat = flatten(recs)
    hdr, left = flat[0], flat[1:]
    drift, accepted = [], 0
    for attempt in range(6):
        if not left:
            break
        conf, r = conformance_one(chk, wdir, 'conf%d' % attempt, [hdr] + left)
        if conf is None:
            chk.cov['exec_drift'] = -1
            print('DRIFT property=%s ExecTrace did not complete: %s' % (chk.pid, r.error or r.out[-300:]))
            return
        if conf['reached'] >= conf['n']:
            accepted = len({x['s'] for x in left})
            break
        stuck = left[min(max(conf['reached'] - 1, 0), len(left) - 1)]
        sess_evs = [x for x in left if x['s'] == stuck['s']]
        k = sess_evs.index(stuck)
        drift.append({'session': stuck['s'], 'seq': stuck['seq'], 'ev': stuck['ev'],
                      'context': [{kk: vv for kk, vv in x.items() if kk != 's'} for x in sess_evs[max(0, k - 25):k + 3]]})
        print('DRIFT property=%s executor session %s is not a behaviour of Exec.tla at event seq %s (%s)' % (chk.pid, stuck['s'], stuck['seq'], stuck['ev']))
        left = [x for x in left if x['s'] != stuck['s']]
    chk.cov['exec_drift'] = len(drift)
    chk.cov['exec_drift_traces'] = drift
    chk.cov['exec_conformance_accepted_sessions'] = accepted
    chk.cov['exec_conformance_events'] = len(flat) - 1
    if chk.cov.get('drift', 0) != -1:
        chk.cov['drift'] = chk.cov.get('drift', 0) + len(drift)
    if accepted:
        res = []
        for name, pred, mut in (('SmAssign.lost flipped', lambda x: x['ev'] == 'SmAssign', lambda x: x.update(lost=not x['lost'])),
                                ('BmReply nil->err', lambda x: x['ev'] == 'BmReply' and x['err'] == 'nil', lambda x: x.update(err='err'))):
            k = next((i for i, x in enumerate(left) if pred(x)), None)
            if k is None:
                continue
            cut = [dict(x) for x in left[:k + 150]]
            mut(cut[k])
            conf2, _ = conformance_one(chk, wdir, 'self%d' % len(res), [hdr] + cut)
            ok2 = conf2 is not None and conf2['reached'] < conf2['n']
            res.append({'corruption': name, 'corrupted_record': k + 2, 'rejected_at': conf2 and conf2['reached'] + 1, 'ok': ok2})
            if not ok2:
                raise Inconclusive('conformance self-test failed: a corrupted executor trace (%s) was accepted by ExecTrace.tla' % name)
        chk.cov['exec_conformance_selftest'] = res


def run(chk, w, tier, replay_case=None, kinds=('plain', 'window', 'kill', 'fatal', 'conc'), nkill=8, mc_only=None):
    wdir = w.root + '/tlc'
    if replay_case is not None:
        cases = [replay_case]
        cases[0]['id'] = 1
    else:
        model_check(chk, wdir, tier, only=mc_only)
        cases = gen(tier, kinds, nkill)
    json.dump(cases, open(w.out('xcases.json'), 'w'))
    p = w.gotest('./exec/', 'TestVerifC12X$', env={'VERIF_CASES': w.out('xcases.json')}, timeout=3000)
    out = w.out('c12x_records.ndjson')
    if p.returncode != 0 or not os.path.exists(out):
        raise Inconclusive('executor harness failed:\n' + (p.stdout or '')[-3000:])
    recs = vlib.read_ndjson(out)
    if len(recs) != len(cases):
        raise Inconclusive('%d executor records for %d cases' % (len(recs), len(cases)))
    need = {'EvalSubmit', 'BmGrant', 'BmCall', 'BmReply', 'BmSetLoc', 'BmOkSet', 'SmAssign', 'TaskState'}
    evkinds = {e['ev'] for r in recs for e in r.get('events', [])}
    if not need <= evkinds:
        raise Inconclusive('executor hook events missing: %s' % sorted(need - evkinds))
    v = vlib.judge(chk, wdir, 'xmon', 'ExecMon', 'ExecMon.cfg', 'c12x_records.ndjson', out, 'c12x_verdict.json', nrecs=len(recs), timeout=1500)
    byid = {c['id']: c for c in cases}
    rb = {r['id']: r for r in recs}
    for b in v['bad']:
        c = byid[b['id']]
        r = rb[b['id']]
        ident = {'what': b['what'], 'exec': 'bigmachine', 'do': 'executor-' + c['kind'], 'ops_on_result': 'map'}
        chk.violation(ident, '%s (executor session %s: run1 %s, reuse %s, rows %s/%s)' % (
            b['what'], json.dumps({k: c[k] for k in c if c[k] not in ('', 0, False)}), r.get('run1'), r.get('reuse'), r.get('rows'), r.get('wantrows')),
            {'xcase': c, 'record': r})
    chk.cov['executor_sessions'] = len(recs)
    chk.cov['executor_events'] = sum(len(r.get('events', [])) for r in recs)
    chk.cov['executor_windows_found'] = sum(1 for r in recs if r.get('window'))
    chk.cov['executor_kills'] = sum(1 for r in recs for e in r.get('events', []) if e['ev'] == 'HKill')
    chk.cov['executor_machines_lost_spontaneously'] = sum(len({e['m'] for e in r.get('events', []) if e['ev'] == 'SmLost'} - {e['m'] for e in r.get('events', []) if e['ev'] == 'HKill'}) for r in recs)
    chk.cov['traces_validated_against_impl'] = chk.cov.get('traces_validated_against_impl', 0) + len(recs)
    for c in cases:
        chk.case({k: c[k] for k in c if k != 'id'}, nontrivial=True)
    if replay_case is None:
        drift_check(chk, wdir, recs)
    return recs
