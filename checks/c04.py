"""C04 — results do not depend on how the computation is executed."""
import importlib.util
import json
import os
import random
import sys

sys.path.insert(0, '/verif/lib')
import vlib
import progs
from vlib import Inconclusive

META = {
    'technique': 'TLA+ Dataflow.tla gives each program one executor-independent value; the same programs are run across a matrix of executor kinds, cluster shapes, session options, pragmas and process-wide internal sizes, every run judged by ProgMon.tla (TLC) against that one value, counters against the sum of increments',
    'level_text': 'model_checking of recorded behaviour against an executor-independent TLA+ reference: each generated program is executed under several configurations (Local / Bigmachine with 1,2,4 procs per machine, parallelism 1..8, max-load 0.5..1.5, machine combiners on/off, reader shuffling on/off, Procs/Exclusive/Materialize pragmas) and under four process-wide size regimes (vector 128/16/8/4 rows, sort canary 256/16/2/1, spill batch 128/8/2/1); TLC judges every run against the same Dataflow value, so any configuration-dependent row or counter is a violation',
    'level_note': 'goroutine scheduling is perturbed only by GOMAXPROCS and parallelism settings; machine loss is C02',
}

ENVS = [('default', {}),
        ('tiny', {'VERIF_CHUNK': 4, 'VERIF_SPILLBATCH': 2, 'VERIF_CANARY': 2}),
        ('tiny2', {'VERIF_CHUNK': 8, 'VERIF_SPILLBATCH': 1, 'VERIF_CANARY': 1, 'VERIF_NOSHUFFLEREADERS': 1}),
        ('mid', {'VERIF_CHUNK': 16, 'VERIF_SPILLBATCH': 8, 'VERIF_CANARY': 16})]


def configs(rng, k):
    out = [{'exec_': 'local', 'parallelism': rng.choice([1, 2, 8])}]
    while len(out) < k:
        out.append({'exec_': 'bigmachine', 'parallelism': rng.choice([1, 2, 8]), 'machprocs': rng.choice([1, 2, 4]),
                    'maxload': rng.choice([0, 0.5, 0.95, 1.5]), 'machcomb': rng.random() < 0.5})
    return out


def gen(tier):
    rng = random.Random(vlib.seed() * 4001 + 3)
    scs, pid = [], 0
    n = 45 if tier == 'quick' else 500
    for _ in range(n):
        x = rng.random()
        g = progs.Gen(rng, big=x < 0.08, mid=0.08 <= x < 0.45)
        prog, k = g.program(rng.choice([1, 2, 3, 4]), taps=rng.choice(['out', 'shuffles']))
        pid += 1
        for cfg in configs(rng, 3 if tier == 'quick' else 5):
            s = progs.scenario(len(scs) + 1, [progs.step_run('r', prog), progs.step_scan('r')], **cfg)
            s['pid'] = pid
            scs.append(s)
    # consumers that read a decoded (shuffled) stream with destinations smaller than its batches
    for k in range(8 if tier == 'quick' else 80):
        g = progs.Gen(rng, mid=True)
        i = g.add(progs.N('const', nshard=rng.choice([1, 1, 2]), rows=progs.rows(rng, rng.choice([60, 90, 150, 300, 356]), 12)), 'eo', 1)
        g.nsh[i] = g.nodes[i]['nshard']
        i = g.add(progs.N(rng.choice(['reshuffle', 'reshard', 'repartition']), **{'in': [i]}, n=rng.choice([1, 2, 3])), 'bag', 0)
        g.nsh[i] = g.nodes[i]['n'] if g.nodes[i]['op'] == 'reshard' else g.nsh[g.nodes[i]['in'][0]]
        i = g.add(progs.N('filter', **{'in': [i]}, f=rng.choice(['even', 'knz'])), 'bag', g.nsh[i])
        if rng.random() < 0.5:
            i = g.grow(i)
        pid += 1
        if g.kind[i] == 'weak':
            continue
        for cfg in configs(rng, 3):
            s = progs.scenario(len(scs) + 1, [progs.step_run('r', {'nodes': g.nodes, 'out': i, 'taps': [i] if i in progs.tappable(g.nodes, i) else []}), progs.step_scan('r')], **cfg)
            s['pid'] = pid
            scs.append(s)
    # contended machine combiners: many producer tasks of one Reduce on few machines
    for k in range(3 if tier == 'quick' else 20):
        g = progs.Gen(rng)
        ns = 8
        i = g.add(progs.N('const', nshard=ns, rows=[[rng.randrange(0, 40), rng.randrange(0, 9)] for _ in range(rng.choice([8000, 16000]))]), 'eo', ns)
        j = g.add(progs.N('reduce', **{'in': [i]}, f='slowsum'), 'bag', ns)
        pid += 1
        for cfg in ({'exec_': 'bigmachine', 'parallelism': 8, 'machprocs': 4, 'machcomb': True},
                    {'exec_': 'bigmachine', 'parallelism': 8, 'machprocs': 8, 'machcomb': True},
                    {'exec_': 'local', 'parallelism': 8}):
            s = progs.scenario(len(scs) + 1, [progs.step_run('r', {'nodes': g.nodes, 'out': j, 'taps': []}), progs.step_scan('r')], **cfg)
            s['pid'] = pid
            scs.append(s)
    return scs


def run(tier, replay=None):
    chk = vlib.Check('C04', tier)
    chk.assumptions = vlib.TRUSTED
    spec = importlib.util.spec_from_file_location('c01', vlib.V + '/checks/c01.py')
    c01 = importlib.util.module_from_spec(spec)
    spec.loader.exec_module(c01)
    with vlib.WorkCopy('c04', harness=['prog']) as w:
        if replay:
            rp = json.load(open(os.path.join(replay, 'replay.json')))['payload']
            scs = [rp['scenario']]
            scs[0]['id'] = 1
            envs = [e for e in ENVS if e[0] == rp.get('env', 'default')] or ENVS[:1]
        else:
            scs = gen(tier)
            envs = ENVS
        total = 0
        for name, env in envs:
            use = scs
            if env.get('VERIF_CHUNK'):
                use = [s for s in scs if not any(len(n.get('rows', [])) > 2000 for st in s['steps'] if st.get('prog') for n in st['prog']['nodes'])]
            recs, path = progs.execute(w, use, workers=6, tag='env_' + name, env=env)
            v = progs.judge(chk, w, path, len(recs), name='progmon_' + name)
            total += len(recs)
            byid = {s['id']: s for s in use}
            rb = {r['id']: r for r in recs}
            for b in v['bad']:
                sc = byid[b['id']]
                ident = {'what': b['what'], 'exec': b['exec'], 'sizes': name, 'machcomb': sc.get('machcomb', False)}
                ops = sorted(set(n['op'] for st in sc['steps'] if st.get('prog') for n in st['prog']['nodes']))
                chk.violation(ident, '%s under config %s sizes=%s (ops %s): %s' % (
                    b['what'], {k: sc[k] for k in ('exec', 'parallelism', 'machprocs', 'maxload', 'machcomb')}, name, ','.join(ops), str(b['detail'])[:150]),
                    {'scenario': sc, 'env': name, 'record': rb.get(b['id'])})
        chk.cov['traces_validated_against_impl'] = total
        chk.cov['configurations'] = len(set(json.dumps({k: s[k] for k in ('exec', 'parallelism', 'machprocs', 'maxload', 'machcomb')}, sort_keys=True) for s in scs)) * len(envs)
        for s in scs:
            chk.case({'prog': s['steps'][0]['prog'], 'cfg': {k: s[k] for k in ('exec', 'parallelism', 'machprocs', 'maxload', 'machcomb')}}, nontrivial=True)
        chk.cov['rule'] = 'programs from VERIF_SEED (1-4 operators, random pragmas) x 3-5 session configurations x 3 process-wide size regimes; plus contended machine-combiner reduces; distinct by (program, configuration)'
        chk.sample({'scenario': scs[0]})
        chk.sample({'envs': [e[1] for e in envs]})
        return chk.finish()
