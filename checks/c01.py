"""C01 — running a slice program yields exactly the rows its operators prescribe."""
import json
import os
import random
import sys

sys.path.insert(0, '/verif/lib')
import vlib
import progs
from vlib import Inconclusive

META = {
    'technique': 'TLA+ denotational spec of the operators (Dataflow.tla) + session monitor state machine (ProgMon.tla); programs run in real sessions on both executors, observations judged by TLC',
    'level_text': 'model_checking of recorded behaviour against an executable TLA+ reference: generated operator DAGs (all public operators, shared sub-slices, multi-input cogroup, nested shuffles, empty shards, colliding keys, sizes straddling 128 rows) are run on the Local and Bigmachine(testsystem) executors; per-shard rows seen by taps, end-of-stream notifications and scanned rows are judged by TLC against the value Dataflow.tla assigns to the program',
    'level_note': 'rows are <<int,int>> (type variety: C07/C11/C05); user functions are a fixed library restated in TLA+; the partition function of keyed shuffles is left unspecified, so for shuffled slices the multiset, one-shard-per-key and (Repartition) exact placement are checked, not a particular hash',
}


def gen(tier):
    rng = random.Random(vlib.seed() * 1009 + 1)
    scs = []
    n = 260 if tier == 'quick' else 4000
    nbig = 10 if tier == 'quick' else 120
    for i in range(n + nbig):
        big = i >= n
        g = progs.Gen(rng, big=big)
        prog, _ = g.program(rng.choice([0, 1, 2, 3, 4]) if not big else rng.choice([1, 2, 3]), taps=rng.choice(['out', 'all', 'shuffles']))
        ex = 'bigmachine' if rng.random() < 0.35 else 'local'
        steps = [progs.step_run('r', prog), progs.step_scan('r')]
        scs.append(progs.scenario(len(scs) + 1, steps, exec_=ex, parallelism=rng.choice([0, 1, 2, 8]),
                                  machprocs=rng.choice([1, 2, 4]) if ex == 'bigmachine' else 0,
                                  machcomb=ex == 'bigmachine' and rng.random() < 0.4))
    # dedicated: keyed operators over inputs with many distinct, interleaving keys and more than 128 rows per shard
    # (merge buffers of the cogroup / reduce readers are refilled in mid-merge)
    for k in range(6 if tier == 'quick' else 60):
        g = progs.Gen(rng)
        ins = []
        for j in range(rng.choice([2, 2, 3])):
            n = rng.choice([140, 200, 300])
            rws = [[rng.randrange(0, 330), rng.randrange(0, 9)] for _ in range(n)]
            if rng.random() < 0.5:
                rws.sort()
            ins.append(g.add(progs.N('const', nshard=rng.choice([1, 1, 2]), rows=rws), 'eo', 1))
        op = ['cogroup', 'cogroup', 'reduce', 'fold'][k % 4]
        if op == 'cogroup':
            i = g.add(progs.N('cogroup', **{'in': ins}), 'bag', max(g.nodes[j]['nshard'] for j in ins))
        else:
            i = g.add(progs.N(op, **{'in': [ins[0]]}, f='sum'), 'bag', g.nodes[ins[0]]['nshard'])
        prog = {'nodes': g.nodes, 'out': i, 'taps': [i]}
        scs.append(progs.scenario(len(scs) + 1, [progs.step_run('r', prog), progs.step_scan('r')],
                                  exec_=rng.choice(['local', 'bigmachine']), machprocs=2))
    # dedicated: one sub-slice feeding two redistributing operators with the same shard count but different
    # partitioning (the producer tasks must not be shared between them), observed per shard
    for k in range(8 if tier == 'quick' else 60):
        g = progs.Gen(rng)
        nsh = rng.choice([2, 3])
        s0 = g.add(progs.N('const', nshard=nsh, rows=progs.rows(rng, rng.choice([6, 9, 14]), 6)), 'eo', nsh)
        if rng.random() < 0.5:
            s0 = g.add(progs.N('map', **{'in': [s0]}, f='inc'), 'eo', nsh)
        a = g.add(progs.N(rng.choice(['reshuffle', 'reshuffle', 'fold']), **{'in': [s0]}), 'bag', nsh)
        b = g.add(progs.N('repartition', **{'in': [s0]}), 'bag', nsh)
        ins = [a, b] if k % 2 == 0 else [b, a]
        out = g.add(progs.N('cogroup', **{'in': ins}), 'bag', nsh)
        prog = {'nodes': g.nodes, 'out': out, 'taps': [a, b, out]}
        scs.append(progs.scenario(len(scs) + 1, [progs.step_run('r', prog), progs.step_scan('r')],
                                  exec_=rng.choice(['local', 'bigmachine']), machprocs=2))
    # dedicated: Scan operator as sink
    for _ in range(12 if tier == 'quick' else 100):
        g = progs.Gen(rng)
        i = g.source()
        for _ in range(rng.choice([0, 1, 2])):
            i = g.grow(i)
        if g.kind[i] == 'weak':
            continue
        j = g.add(progs.N('scan', **{'in': [i]}), 'eo', g.nsh[i])
        prog = {'nodes': g.nodes, 'out': j, 'taps': [j]}
        # the unit result of a Scan sink is scanned only on the local executor, except for one short
        # bigmachine scenario (known finding KF-C01-scan-unit-result: there the scan cannot open the result)
        scs.append(progs.scenario(len(scs) + 1, [progs.step_run('r', prog), progs.step_scan('r')], exec_='local'))
        scs.append(progs.scenario(len(scs) + 1, [progs.step_run('r', prog)], exec_='bigmachine'))
    g = progs.Gen(rng)
    i = g.add(progs.N('const', nshard=2, rows=[[1, 1], [2, 2], [3, 3]]), 'eo', 2)
    j = g.add(progs.N('scan', **{'in': [i]}), 'eo', 2)
    scs.append(progs.scenario(len(scs) + 1, [progs.step_run('r', {'nodes': g.nodes, 'out': j, 'taps': [j]}), progs.step_scan('r')],
                              exec_='bigmachine', timeout_s=12))
    return scs


def report(chk, scs, recs, v, tierinfo=None):
    byid = {s['id']: s for s in scs}
    rb = {r['id']: r for r in recs}
    for b in v['bad']:
        sc = byid[b['id']]
        ops = sorted(set(n['op'] for st in sc['steps'] if st.get('prog') for n in st['prog']['nodes']))
        sink = ''
        for st in sc['steps']:
            if st.get('prog'):
                sink = st['prog']['nodes'][st['prog']['out']]['op']
        ident = {'what': b['what'], 'exec': b['exec'], 'do': b['do'], 'sink': sink}
        chk.violation(ident, '%s (%s, scenario %s, seq %s, ops %s): %s' % (b['what'], b['exec'], b['id'], b['seq'], ','.join(ops), str(b['detail'])[:200]),
                      {'scenario': sc, 'record': rb.get(b['id'])})


def run(tier, replay=None):
    chk = vlib.Check('C01', tier)
    chk.assumptions = vlib.TRUSTED
    with vlib.WorkCopy('c01', harness=['prog']) as w:
        if replay:
            scs = [json.load(open(os.path.join(replay, 'replay.json')))['payload']['scenario']]
            scs[0]['id'] = 1
        else:
            scs = gen(tier)
        recs, path = progs.execute(w, scs, workers=8)
        v = progs.judge(chk, w, path, len(recs))
        chk.cov['traces_validated_against_impl'] = len(recs)
        # the same programs again with 4-row internal vectors (defaultsize.Chunk=4 (a power of two, as the combiner tables require), SpillBatchSize=2, sort canary 2):
        # every vector boundary becomes reachable with tiny inputs
        small = [s for s in scs if not any(len(n.get('rows', [])) > 50 or any(len(x) > 50 for x in n.get('shards', []))
                                           for st in s['steps'] if st.get('prog') for n in st['prog']['nodes'])]
        recs2, path2 = progs.execute(w, small, workers=8, tag='chunk3', env={'VERIF_CHUNK': 4, 'VERIF_SPILLBATCH': 2, 'VERIF_CANARY': 2})
        v2 = progs.judge(chk, w, path2, len(recs2), name='progmon_chunk3')
        chk.cov['traces_validated_against_impl'] += len(recs2)
        chk.cov['small_vector_runs'] = len(recs2)
        for s in scs:
            chk.case({'steps': s['steps'], 'exec': s['exec']}, nontrivial=any(len(st.get('prog', {}).get('nodes', [])) > 1 for st in s['steps']))
        chk.cov['rule'] = 'random well-formed operator DAGs from VERIF_SEED (0-4 operators over 1-3 sources, 1-3 shards, keys in 0..3; plus programs with 127..300 rows), each on a random executor configuration; distinct by (program, executor); non-trivial = more than one node'
        chk.sample({'scenario': scs[0]})
        chk.sample({'record_events': recs[0]['events'][:2]})
        report(chk, scs, recs, v)
        report(chk, small, recs2, v2)
        return chk.finish()
