"""C12 — results can be reused, rescanned and discarded without changing their rows."""
import json
import os
import random
import sys

sys.path.insert(0, '/verif/lib')
sys.path.insert(0, '/verif/checks')
import vlib
import execx
import progs
from vlib import Inconclusive

META = {
    'technique': 'TLA+ session monitor (ProgMon.tla over Dataflow.tla): env pins each Result to the rows of its first evaluation, gone tracks discarded results; run/scan/run-with-result/discard histories executed in real sessions on both executors and judged by TLC; executor level: TLA+ design model Exec.tla (bigmachineExecutor.Run/Discard, sliceMachine.Assign/Discard/Go under machine loss) checked exhaustively by TLC in the repaired shape and in three shapes known to be wrong (code as found, a repair that does not work, a seeded reordering), the counterexample schedule of the code as found replayed into the real executor through a gate at the BmOkSet hook, real sessions with machine kills at executor events judged by ExecMon.tla and validated against Exec.tla\'s actions by ExecTrace.tla (conformance/DRIFT)',
    'level_text': 'model_checking of recorded behaviour: histories of run / scan / rescan / run-with-result (through pipelined and shuffling operators applied directly to the result) / discard / concurrent scan||discard||run, generated from VERIF_SEED, are executed on the Local and Bigmachine(testsystem) executors; every successful use must observe the rows of the first evaluation (per shard where the first evaluation was observed), a scan of a discarded result may only fail or return the same rows, nothing may hang; executor level: every interleaving of executor goroutines, machine monitor, Discard, kills and the (abstract) evaluator for a producer/consumer graph on three machines (33,614 states; 7.5 M states for two producers and two kills in thorough), with liveness (every root OK or a task failed once kills and discards stop); real sessions: Discard issued in the window between a root task being marked OK and being assigned to its machine (every root of 1-3 shards), machine killed at the n-th grant/call/reply/location/ok event, each followed by a second invocation consuming the result: no run may block, no task may be left RUNNING, rows of the first evaluation, success without loss and after one loss',
    'level_note': 'machine-loss histories are covered by C02; rows are <<int,int>>; the window schedule needs the BmOkSet hook as a gate: with the repaired code the gate is reached before Run returns (no window), which the harness detects and reports as window=false',
}


def res_kind(prog, kind_nsh):
    return kind_nsh


def gen(tier):
    rng = random.Random(vlib.seed() * 2003 + 5)
    scs = []
    n = 150 if tier == 'quick' else 2500
    for _ in range(n):
        ex = 'bigmachine' if rng.random() < 0.4 else 'local'
        g0 = progs.Gen(rng)
        p0, k0 = g0.program(rng.choice([0, 1, 2, 3]), taps='out')
        if k0[0] == 'weak':
            continue
        steps = [progs.step_run('r0', p0)]
        kinds = {'r0': k0}
        names = ['r0']
        hist = rng.randrange(2, 7)
        for h in range(hist):
            c = rng.random()
            if c < 0.25:
                steps.append(progs.step_scan(rng.choice(names)))
            elif c < 0.65:
                nargs = rng.choice([1, 1, 2])
                args = [rng.choice(names) for _ in range(nargs)]
                g = progs.Gen(rng, nargs=nargs, argkinds=[kinds[a] for a in args])
                # make sure an argument is used first, directly under the first operator
                i = g.add(progs.N('arg', arg=0), kinds[args[0]][0], kinds[args[0]][1])
                for k in range(rng.choice([1, 1, 2, 3])):
                    i = g.grow(i, last=False)
                if g.kind[i] == 'weak':
                    continue
                name = 'r%d' % len(names)
                ok = progs.tappable(g.nodes, i)
                steps.append(progs.step_run(name, {'nodes': g.nodes, 'out': i, 'taps': [i] if i in ok else []}, args))
                kinds[name] = (g.kind[i], g.nsh[i])
                names.append(name)
            elif c < 0.85:
                steps.append(progs.step_discard(rng.choice(names)))
            else:
                grp = []
                for _ in range(rng.choice([2, 3])):
                    a = rng.choice(names)
                    grp.append([rng.choice([progs.step_scan(a), progs.step_scan(a), progs.step_discard(a)])])
                steps.append(progs.step_par(grp))
        steps.append(progs.step_scan(rng.choice(names)))
        scs.append(progs.scenario(len(scs) + 1, steps, exec_=ex, parallelism=rng.choice([0, 2]),
                                  machprocs=rng.choice([1, 2]) if ex == 'bigmachine' else 0, timeout_s=90))
    # directed: a Discard of a result lands while a later run that uses it is being dispatched (between the
    # evaluator handing out the consumer and the executor looking up where the dependency's output is)
    for k in range(16 if tier == 'quick' else 160):
        g0 = progs.Gen(rng)
        p0, k0 = g0.program(rng.choice([0, 1]), taps=[])
        if k0[0] == 'weak' or any(n['op'] in ('scanreader', 'head') for n in p0['nodes']):
            continue
        p0['taps'] = []
        g = progs.Gen(rng, nargs=1, argkinds=[k0])
        i = g.add(progs.N('arg', arg=0), k0[0], k0[1])
        i = g.add(progs.N(rng.choice(['map', 'reshuffle', 'reduce']), **{'in': [i]}, f='inc' if g is None else 'sum'), 'bag', k0[1])
        if g.nodes[i]['op'] == 'map':
            g.nodes[i]['f'] = 'inc'
        p1 = {'nodes': g.nodes, 'out': i, 'taps': []}
        d = [0, 0, 1, 2, 3, 5, 8, 13][k % 8]
        lane2 = ([{'do': 'sleep', 'as': '', 'res': '', 'args': [], 'n': d}] if d else []) + [progs.step_discard('r0')]
        steps = [progs.step_run('r0', p0), progs.step_par([[progs.step_run('r1', p1, ['r0'])], lane2]), progs.step_scan('r1')]
        scs.append(progs.scenario(len(scs) + 1, steps, exec_='bigmachine', parallelism=2, machprocs=rng.choice([1, 2]), timeout_s=60))
    # directed: a Discard whose context is already cancelled (its calls to the workers fail), then reuse
    for k in range(3 if tier == 'quick' else 20):
        g0 = progs.Gen(rng)
        p0, k0 = g0.program(rng.choice([0, 1, 2]), taps=[])
        if k0[0] == 'weak' or any(n['op'] in ('scanreader', 'head') for n in p0['nodes']):
            continue
        p0['taps'] = []
        g = progs.Gen(rng, nargs=1, argkinds=[k0])
        i = g.add(progs.N('arg', arg=0), k0[0], k0[1])
        i = g.add(progs.N('map', **{'in': [i]}, f='inc'), k0[0], k0[1])
        p1 = {'nodes': g.nodes, 'out': i, 'taps': []}
        dc = dict(progs.step_discard('r0'), cancelled=True)
        arm = {'do': 'kills', 'as': '', 'res': '', 'args': [], 'kills': [{'method': 'Worker.Discard', 'ordinal': o, 'phase': 'fail', 'bytes': 0} for o in range(1, 9)]}
        steps = [progs.step_run('r0', p0), arm, dc, progs.step_run('r1', p1, ['r0']), progs.step_scan('r1'), progs.step_scan('r0')]
        scs.append(progs.scenario(len(scs) + 1, steps, exec_='bigmachine', parallelism=2, machprocs=2, timeout_s=25, interpose=True))
    # directed: a diamond of result reuse with paths of different length, the last run needing machines that have
    # not seen the earlier invocations (they must receive them in dependency order)
    for sc in progs.diamond_scenarios(rng, 4 if tier == 'quick' else 30, len(scs) + 1):
        scs.append(sc)
    return scs


def report(chk, scs, recs, v):
    byid = {s['id']: s for s in scs}
    rb = {r['id']: r for r in recs}
    for b in v['bad']:
        sc = byid[b['id']]
        rec = rb[b['id']]
        ev = next((e for e in rec['events'] if e.get('seq') == b['seq']), {})
        first_op = ''
        if ev.get('prog') and ev.get('args'):
            nodes = ev['prog']['nodes']
            argn = {i for i, n in enumerate(nodes) if n['op'] == 'arg'}
            cons = sorted(set(n['op'] for n in nodes if any(i in argn for i in n['in'])))
            first_op = ','.join(cons)
        ident = {'what': b['what'], 'exec': b['exec'], 'do': b['do'], 'ops_on_result': first_op}
        chk.violation(ident, '%s (%s, scenario %s, seq %s, operators applied to the result: %s): %s' % (
            b['what'], b['exec'], b['id'], b['seq'], first_op, str(b['detail'])[:300]), {'scenario': sc, 'record': rec})


def run(tier, replay=None):
    chk = vlib.Check('C12', tier)
    chk.assumptions = vlib.TRUSTED
    with vlib.WorkCopy('c12', harness=['prog', 'c12x']) as w:
        if replay:
            payload = json.load(open(os.path.join(replay, 'replay.json')))['payload']
            if 'xcase' in payload:
                execx.run(chk, w, tier, replay_case=payload['xcase'])
                return chk.finish()
            scs = [payload['scenario']]
            scs[0]['id'] = 1
        else:
            scs = gen(tier)
        recs, path = progs.execute(w, scs, workers=8)
        v = progs.judge(chk, w, path, len(recs))
        chk.cov['traces_validated_against_impl'] = len(recs)
        chk.cov['events'] = sum(len(r['events']) for r in recs)
        for s in scs:
            chk.case({'steps': s['steps'], 'exec': s['exec']}, nontrivial=len(s['steps']) >= 3)
        chk.cov['rule'] = 'histories from VERIF_SEED: run r0, then 2-6 of {scan, run-with-result(s) applying 1-3 operators directly to results, discard, concurrent scan/discard groups}, final scan; distinct by (history, executor); non-trivial = at least 3 steps'
        chk.sample({'scenario': scs[0]})
        chk.sample({'events': [{k: e[k] for k in e if k not in ('prog', 'taps')} for e in recs[0]['events'][:6]]})
        report(chk, scs, recs, v)
        if not replay:
            # executor level: Exec.tla (design model, exhaustive), real sessions with a Discard in the window between
            # 'marked OK' and 'assigned', machine kills at executor events; ExecMon judges, ExecTrace validates
            execx.run(chk, w, tier, nkill=3)
        return chk.finish()
