"""C06 — user errors and panics surface as errors from Run, on every executor."""
import json
import os
import random
import sys

sys.path.insert(0, '/verif/lib')
import vlib
import progs
from vlib import Inconclusive

META = {
    'category': 'fault_enumeration',
    'technique': 'TLA+ session monitor ProgMon.tla (fault clauses: surfaces-as-error, carries-message, bounded retry, transient-is-retried, driver-survives, session-still-usable) judging recorded runs of programs with a fault injected at every user-function call site, each run in a child process on both executors',
    'level_text': 'fault enumeration judged by a TLA+ monitor: for every user-function call site of the operator set (reader, writer, map, filter, flatmap, fold, reduce combiner, partitioner, scan callback) x failure mode (error, temporary error, panic, out-of-range partition) x persistence x position (first call, later call, beyond a 128-row vector) x executor configuration (local; bigmachine with and without machine combiners), the program is run in a real session inside a child process, followed by a healthy run in the same session; TLC judges Run\'s error, its message, elapsed outcome (no hang / unbounded retry), process survival and the follow-up run',
    'level_note': 'each scenario runs in a child process so that a driver crash is an observation; "does not hang" is decided by a 20 s context deadline per run (a run that only ends because the deadline expired counts as hanging)',
}

SITES = [('readerfunc', ['error', 'temp', 'panic']), ('writerfunc', ['error', 'temp', 'panic']), ('scan', ['error', 'panic']),
         ('map', ['panic']), ('filter', ['panic']), ('flatmap', ['panic']), ('fold', ['panic']), ('reduce', ['panic']),
         ('repartition', ['panic', 'oor'])]


def prog_for(rng, site, fault, big, follow=None):
    g = progs.Gen(rng)
    nsh = rng.choice([1, 2, 3])
    n = rng.choice([3, 6, 9]) if not big else rng.choice([140, 300])
    if site == 'readerfunc':
        shards = [progs.rows(rng, max(1, n // nsh), 4) for _ in range(nsh)]
        i = g.add(progs.N('readerfunc', nshard=nsh, shards=shards, batch=rng.choice([0, 1, 2]), fault=fault), 'eo', nsh)
        fo = follow if follow is not None else rng.choice(['', 'reduce', 'reshuffle', 'map', 'fold', 'repartition'])
        if fo:
            i = g.add(progs.N(fo, **{'in': [i]}, f='sum' if fo == 'reduce' else 'inc'), 'bag', nsh)
        return {'nodes': g.nodes, 'out': i, 'taps': []}
    i = g.add(progs.N('const', nshard=nsh, rows=progs.rows(rng, n, 4)), 'eo', nsh)
    if rng.random() < 0.4:
        i = g.add(progs.N('reshuffle', **{'in': [i]}), 'bag', nsh)
    node = progs.N(site, **{'in': [i]}, fault=fault)
    if site == 'map':
        node['f'] = 'inc'
    if site == 'filter':
        node['f'] = 'even'
    if site == 'reduce':
        node['f'] = 'sum'
    i = g.add(node, 'bag', nsh)
    fo = follow if follow is not None else rng.choice(['', '', 'reshuffle', 'reduce', 'fold', 'repartition'])
    if site not in ('scan',) and fo:
        i = g.add(progs.N(fo, **{'in': [i]}, f='sum'), 'bag', nsh)
    return {'nodes': g.nodes, 'out': i, 'taps': []}


def healthy(rng):
    g = progs.Gen(rng)
    i = g.add(progs.N('const', nshard=2, rows=progs.rows(rng, 6, 4)), 'eo', 2)
    i = g.add(progs.N('reduce', **{'in': [i]}, f='sum'), 'bag', 2)
    return {'nodes': g.nodes, 'out': i, 'taps': [i]}


def gen(tier):
    rng = random.Random(vlib.seed() * 11003 + 3)
    scs = []
    reps = 1 if tier == 'quick' else 6
    for site, modes in SITES:
        for mode in modes:
            for persist in (True, False):
                if not persist and mode != 'temp':
                    continue
                for ex, mc in (('local', False), ('bigmachine', False), ('bigmachine', True)):
                    follows = [None] * reps
                    if site in ('readerfunc', 'writerfunc') and persist and ex == 'bigmachine':
                        # every kind of consumer of the failing task's output: pipelined, combining shuffle, plain shuffles
                        follows = ['', 'reduce', 'reshuffle', 'fold'] + [None] * (reps - 1)
                    for fo in follows:
                        big = rng.random() < 0.25
                        at = rng.choice([0, 0, 1, 3]) if not big else rng.choice([0, 127, 128, 130])
                        fault = {'mode': mode, 'at': at, 'shard': rng.choice([-1, -1, 0]), 'persist': persist, 'msg': 'userfault-%d' % rng.randrange(1000)}
                        p = prog_for(rng, site, fault, big, fo)
                        steps = [progs.step_run('bad', p), progs.step_run('good', healthy(rng)), progs.step_scan('good')]
                        if not persist:
                            steps.insert(1, progs.step_scan('bad'))
                        scs.append(progs.scenario(len(scs) + 1, steps, exec_=ex, machcomb=mc, parallelism=rng.choice([1, 2, 4]),
                                                  machprocs=2 if ex == 'bigmachine' else 0, timeout_s=20, isolate=True))
    # a reader that fails together with the rows of the same call, consumed by a Scan (a Scanner reads the shard)
    for ex in ('local', 'bigmachine'):
        for at in (0, 1, 2):
            nsh = rng.choice([1, 2])
            fault = {'mode': 'errrows', 'at': at, 'shard': -1, 'persist': True, 'msg': 'userfault-%d' % rng.randrange(1000)}
            g = progs.Gen(rng)
            i = g.add(progs.N('readerfunc', nshard=nsh, shards=[progs.rows(rng, 6, 4) for _ in range(nsh)], batch=2, fault=fault), 'eo', nsh)
            i = g.add(progs.N('scan', **{'in': [i]}), 'eo', nsh)
            p = {'nodes': g.nodes, 'out': i, 'taps': []}
            steps = [progs.step_run('bad', p), progs.step_run('good', healthy(rng)), progs.step_scan('good')]
            scs.append(progs.scenario(len(scs) + 1, steps, exec_=ex, parallelism=2, machprocs=2 if ex == 'bigmachine' else 0, timeout_s=20, isolate=True))
    # failures that go away on retry, again after the result was discarded and is computed anew: each time fewer than
    # the give-up threshold of consecutive losses, more than it in total
    for ex in ('local', 'bigmachine'):
        for _ in range(1 if tier == 'quick' else 4):
            fault = {'mode': 'temp', 'at': 0, 'shard': -1, 'persist': False, 'times': 3, 'msg': 'userfault-%d' % rng.randrange(1000)}
            g = progs.Gen(rng)
            i = g.add(progs.N('readerfunc', nshard=1, shards=[progs.rows(rng, 5, 4)], batch=2, fault=fault), 'eo', 1)
            p = {'nodes': g.nodes, 'out': i, 'taps': []}
            g2 = progs.Gen(rng, nargs=1, argkinds=[('eo', 1)])
            j = g2.add(progs.N('arg', arg=0), 'eo', 1)
            j = g2.add(progs.N('map', **{'in': [j]}, f='inc'), 'eo', 1)
            p2 = {'nodes': g2.nodes, 'out': j, 'taps': []}
            steps = [progs.step_run('bad', p), progs.step_scan('bad'), progs.step_discard('bad'), {'do': 'resetfaults', 'as': '', 'res': '', 'args': []},
                     progs.step_run('again', p2, ['bad']), progs.step_scan('again'),
                     progs.step_discard('bad'), {'do': 'resetfaults', 'as': '', 'res': '', 'args': []},
                     progs.step_run('again2', p2, ['bad']), progs.step_scan('again2')]
            scs.append(progs.scenario(len(scs) + 1, steps, exec_=ex, parallelism=2, machprocs=2 if ex == 'bigmachine' else 0, timeout_s=20, isolate=True))
    return scs


def site_of(sc):
    for st in sc['steps']:
        if st.get('prog'):
            for n in st['prog']['nodes']:
                if n.get('fault'):
                    return n['op'], n['fault']['mode'], n['fault']['persist']
    return '', '', False


def run(tier, replay=None):
    chk = vlib.Check('C06', tier, level='fault_enumeration')
    chk.assumptions = vlib.TRUSTED
    with vlib.WorkCopy('c06', harness=['prog']) as w:
        if replay:
            scs = [json.load(open(os.path.join(replay, 'replay.json')))['payload']['scenario']]
            scs[0]['id'] = 1
        else:
            scs = gen(tier)
        recs, path = progs.execute(w, scs, workers=10, timeout=3000)
        v = progs.judge(chk, w, path, len(recs))
        byid = {s['id']: s for s in scs}
        rb = {r['id']: r for r in recs}
        fired = 0
        for r in recs:
            for e in r['events']:
                if e.get('fault_fired', 0) > 0:
                    fired += 1
        chk.cov['traces_validated_against_impl'] = len(recs)
        chk.cov['runs_in_which_the_fault_fired'] = fired
        chk.cov['child_process_crashes'] = sum(1 for r in recs if r.get('crashed'))
        for b in v['bad']:
            sc = byid[b['id']]
            site, mode, persist = site_of(sc)
            ev = next((e for e in rb[b['id']]['events'] if e.get('seq') == b['seq']), {})
            ident = {'what': b['what'], 'site': site, 'mode': mode, 'persist': persist, 'exec': b['exec'], 'machcomb': sc['machcomb'],
                     'step': 'faulty-run' if ev.get('as') == 'bad' or b['do'] == 'scenario' else 'later-run'}
            chk.violation(ident, '%s: fault %s/%s persist=%s on %s (machcomb=%s): %s' % (b['what'], site, mode, persist, b['exec'], sc['machcomb'], str(b['detail'])[:200] or ev.get('err', '')[:200]),
                          {'scenario': sc, 'record': rb[b['id']]})
        for s in scs:
            site, mode, persist = site_of(s)
            chk.case({'site': site, 'mode': mode, 'persist': persist, 'exec': s['exec'], 'machcomb': s['machcomb'], 'steps': s['steps']}, nontrivial=True)
        chk.cov['rule'] = 'call site x mode x persistence x executor configuration matrix (positions and program shapes from VERIF_SEED); distinct by full scenario'
        chk.sample({'scenario': scs[0]})
        return chk.finish()
