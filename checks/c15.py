"""C15 — task stores are commit-atomic; remote reads resume without gaps or repeats."""
import json
import os
import random
import sys

sys.path.insert(0, '/verif/lib')
import vlib
from vlib import Inconclusive

META = {
    'technique': 'TLA+ Store.tla (commit-atomic map with writers, uncertain-after-fault set) and RetryRead.tla (resumable stream) validate, step by step with TLC, recorded operation sequences on the real memoryStore / fileStore (over a fault-injecting file layer) and recorded retryReader sessions over a scripted failing connection',
    'level_text': 'model_checking of recorded behaviour: write/commit/open(any offset)/stat/discard sequences over two keys on both store implementations, with one or two failures injected at every kind and ordinal of underlying file operation (create, write, close=publish, open, stat, seek, read, remove), are replayed through Store.tla; every return value and every byte read must be allowed by the model state (visibility only after successful commit, exact bytes/count, honest commit). Remote stream reads with every placement of open failures, partial reads and read errors around the retry budget are replayed through RetryRead.tla (no gap, no repeat, reopen at delivered offset, fail only after budget+1 consecutive failures)',
    'level_note': 'the file layer is base/file\'s local implementation wrapped by harness/common/internal/vfault (a failed close does not publish); S3 semantics are not exercised',
}

FILE_KINDS = ['create', 'write', 'close', 'open', 'fstat', 'seek', 'read', 'remove']


def gen_store(rng, cid, impl, faults):
    ops, nw = [], 0
    open_w = []
    for _ in range(rng.choice([3, 4, 6, 8, 10])):
        c = rng.random()
        if c < 0.25 or not open_w and c < 0.5:
            ops.append(['create', rng.randrange(2)])
            open_w.append(nw); nw += 1
        elif c < 0.45 and open_w:
            ops.append(['write', rng.choice(open_w), rng.choice([0, 1, 3, 8, 20])])
        elif c < 0.62 and open_w:
            w = rng.choice(open_w)
            ops.append(['commit', w, rng.randrange(0, 5)]); open_w.remove(w)
        elif c < 0.67 and open_w:
            w = rng.choice(open_w)
            ops.append(['wdiscard', w]); open_w.remove(w)
        elif c < 0.85:
            ops.append(['open', rng.randrange(2), rng.choice([0, 0, 1, 2, 5, 30]), rng.choice([1, 3, 64])])
        elif c < 0.93:
            ops.append(['stat', rng.randrange(2)])
        else:
            ops.append(['discard', rng.randrange(2)])
    # make sure something is read back at the end
    ops += [['open', 0, 0, 7], ['stat', 0], ['open', 1, rng.choice([0, 2]), 64]]
    return {'id': cid, 'mode': 'store', 'impl': impl, 'ops': ops, 'faults': faults, 'stream': 0, 'plan': [], 'rsizes': [1], 'budget': 0}


def gen_retry(rng, cid):
    budget = rng.choice([1, 2, 3, 5])
    n = rng.choice([0, 1, 2, 6, 6, 20, 64])
    plan = []
    for _ in range(rng.choice([0, 1, 2, 3, 5, 8])):
        c = rng.random()
        if c < 0.35:
            plan.append(['openfail'])
        elif c < 0.7:
            plan.append(['readerr', rng.choice([0, 0, 1, 2, 3])])
        else:
            plan.append(['read', rng.choice([0, 1, 2, 3])])
    if rng.random() < 0.25:   # every reopen succeeds and the read after it fails, more often than the budget allows
        plan += [['readerr', 0] for _ in range(budget + rng.choice([1, 2, 4]))]
    if rng.random() < 0.3:   # a burst around the budget
        burst = rng.choice([budget, budget + 1, budget + 2])
        plan += [rng.choice([['openfail'], ['readerr', rng.choice([0, 1])]]) for _ in range(burst)]
    return {'id': cid, 'mode': 'retry', 'impl': '', 'ops': [], 'faults': [], 'stream': n, 'plan': plan,
            'rsizes': [rng.choice([1, 2, 3, 64]) for _ in range(rng.choice([1, 2]))], 'budget': budget}


def gen(tier):
    rng = random.Random(vlib.seed() * 9001 + 21)
    cases = []
    ns = 400 if tier == 'quick' else 8000
    for _ in range(ns):
        impl = rng.choice(['file', 'file', 'memory'])
        faults = []
        if impl == 'file' and rng.random() < 0.6:
            for _ in range(rng.choice([1, 1, 2])):
                faults.append([rng.choice(FILE_KINDS), rng.randrange(1, 6)])
        cases.append(gen_store(rng, len(cases) + 1, impl, faults))
    # systematic: the canonical write-commit-read sequence with a fault at every file operation ordinal
    base = [['create', 0], ['write', 0, 8], ['write', 0, 3], ['commit', 0, 2], ['stat', 0], ['open', 0, 0, 4], ['open', 0, 5, 64],
            ['discard', 0], ['open', 0, 0, 4]]
    for at in range(1, 40 if tier == 'quick' else 60):
        cases.append({'id': len(cases) + 1, 'mode': 'store', 'impl': 'file', 'ops': base, 'faults': [['', at]], 'stream': 0, 'plan': [],
                      'rsizes': [1], 'budget': 0})
    nr = 600 if tier == 'quick' else 20000
    for _ in range(nr):
        cases.append(gen_retry(rng, len(cases) + 1))
    return cases


def run(tier, replay=None):
    chk = vlib.Check('C15', tier)
    chk.assumptions = vlib.TRUSTED
    with vlib.WorkCopy('c15', harness=['c15']) as w:
        if replay:
            cases = [json.load(open(os.path.join(replay, 'replay.json')))['payload']['case']]
            cases[0]['id'] = 1
        else:
            cases = gen(tier)
        json.dump(cases, open(w.out('cases.json'), 'w'))
        p = w.gotest('./exec/', 'TestVerifC15$', env={'VERIF_CASES': w.out('cases.json')}, timeout=1500)
        so, ro = w.out('c15_store.ndjson'), w.out('c15_retry.ndjson')
        if p.returncode != 0 or not os.path.exists(so):
            raise Inconclusive('harness failed:\n' + (p.stdout or '')[-3000:])
        srecs, rrecs = vlib.read_ndjson(so), vlib.read_ndjson(ro)
        if len(srecs) + len(rrecs) != len(cases):
            raise Inconclusive('%d records for %d cases' % (len(srecs) + len(rrecs), len(cases)))
        byid = {c['id']: c for c in cases}
        if srecs:
            v = vlib.judge(chk, w.root + '/tlc', 'store', 'Store', 'Store.cfg', 'c15_store.ndjson', so, 'c15_store_verdict.json', nrecs=len(srecs))
            rb = {r['id']: r for r in srecs}
            for b in v['bad']:
                c = byid[b['id']]
                fk = sorted(set(f[0] for f in c['faults']))
                chk.violation({'layer': 'store', 'impl': b['impl'], 'what': b['what'], 'op': b['op'], 'fault_kinds': ','.join(fk)},
                              'store %s: %s at step %s (op %s, faults %s, ops %s)' % (b['impl'], b['what'], b['step'], b['op'], c['faults'], json.dumps(c['ops'])[:200]),
                              {'case': c, 'steps': rb[b['id']]['steps'][:b['step']]})
            chk.sample({'case': srecs[0]['steps'][:4]})
        if rrecs:
            v2 = vlib.judge(chk, w.root + '/tlc', 'retry', 'RetryRead', 'RetryRead.cfg', 'c15_retry.ndjson', ro, 'c15_retry_verdict.json', nrecs=len(rrecs))
            rb = {r['id']: r for r in rrecs}
            for b in v2['bad']:
                c = byid[b['id']]
                chk.violation({'layer': 'retry', 'what': b['what']},
                              'retryReader: %s at read %s (budget %s, stream %s bytes, plan %s, read sizes %s)' % (b['what'], b['step'], b['budget'], c['stream'], c['plan'], c['rsizes']),
                              {'case': c, 'record': rb[b['id']]})
            chk.sample({'case': {k: byid[rrecs[0]['id']][k] for k in ('stream', 'plan', 'rsizes', 'budget')}, 'reads': rrecs[0]['steps'][:4]})
        chk.cov['traces_validated_against_impl'] = len(srecs) + len(rrecs)
        chk.cov['store_sessions_with_faults'] = sum(1 for c in cases if c['faults'])
        for c in cases:
            chk.case({k: c[k] for k in c if k != 'id'}, nontrivial=len(c['ops']) + len(c['plan']) >= 2)
        chk.cov['rule'] = 'store: 3-13 ops over 2 keys on file/memory store, 0-2 faults at (file op kind, ordinal 1-5), plus the canonical sequence with a fault at every overall file-operation ordinal; retry: streams 0-64 bytes, plans of 0-8 open failures / partial reads / read errors plus bursts at budget-1..budget+2, read sizes 1-64, budgets 1-5; distinct by full case'
        return chk.finish()
